#!/usr/bin/env python3
"""Driver for the libfiber model-checking checks.

  run.py check <ID> [--tier quick|thorough]   build from $VERIF_REPO (default /repo), explore, write evidence
  run.py replay <file> [-v]                   re-execute one recorded schedule with a trace
  run.py list

Exit status of `check`: 0 property held on everything explored (known findings
are printed as KNOWN-FINDING lines), 1 at least one violation that is not a
listed known finding (a line `VIOLATION property=<id> replay=<path>` is
printed), 2 the machinery itself failed (never reported as a violation).
"""
import json
import os
import re
import subprocess
import sys
import time

import fmcbuild
from checks import CHECKS, HARNESSES

VERIF = os.path.dirname(os.path.abspath(__file__))
# VERIF_SCRATCH redirects outputs (replays, evidence) when the checks are pointed at a scratch copy of the
# repository (seeded-bug testing); the registered commands never set it.
_SCR = os.environ.get("VERIF_SCRATCH")
OUT = os.path.join(_SCR, "out") if _SCR else os.path.join(VERIF, "out")
EVID = os.path.join(_SCR, "evidence") if _SCR else os.path.join(VERIF, "evidence")


def load_known():
    p = os.path.join(VERIF, "known_findings.json")
    if not os.path.exists(p):
        return []
    with open(p) as f:
        return json.load(f).get("findings", [])


def match_known(known, prop, harness, args, msg):
    for k in known:
        if k.get("status") != "known" or k.get("property") != prop:
            continue
        if k.get("harness") and k["harness"] != harness:
            continue
        if k.get("args_regex") and not re.search(k["args_regex"], " ".join(args)):
            continue
        if re.search(k["match"], msg):
            return k
    return None


def symbolize(exe, text):
    """append file:line for pc=0x... occurrences (best effort)"""
    pcs = sorted(set(re.findall(r"pc=(0x[0-9a-f]+)", text)))
    if not pcs:
        return text
    try:
        r = subprocess.run(["addr2line", "-f", "-s", "-e", exe] + pcs, capture_output=True, text=True, timeout=20)
        lines = r.stdout.strip().split("\n")
        for i, pc in enumerate(pcs):
            fn, loc = lines[2 * i], lines[2 * i + 1]
            text = text.replace("pc=" + pc, "pc=%s[%s %s]" % (pc, fn, loc))
    except Exception:
        pass
    return text


def run_check(prop, tier):
    spec = CHECKS[prop]
    runs = spec[tier] if tier in spec else spec["quick"]
    if tier == "thorough":
        # the cheap runs first (focused ones complete in seconds to a minute): what they leave
        # of their share goes to the expensive bounds at the end
        runs = sorted(runs, key=lambda r: 0 if "-focus" in r["args"] else 1)
    budget = float(os.environ.get("VERIF_BUDGET_S", spec.get("budget", {}).get(tier, 240 if tier == "quick" else 1800)))
    seed = int(os.environ.get("VERIF_SEED", "0") or 0)
    t0 = time.time()
    outdir = os.path.join(OUT, prop)
    subprocess.run(["rm", "-rf", outdir])
    os.makedirs(outdir, exist_ok=True)
    os.makedirs(EVID, exist_ok=True)
    libdir = fmcbuild.build_lib()
    known = load_known()
    results = []
    violations = []
    known_seen = {}
    engine_errors = []
    for idx, run in enumerate(runs):
        hname = run["harness"]
        h = HARNESSES[hname]
        exe = fmcbuild.build_harness(h.get("src", hname), h["kind"], libdir, extra_wraps=h.get("wraps", ()), lib_objs=h.get("objs"), defs=h.get("defs", ()), extra_srcs=h.get("extra_srcs", ()), link_flags=h.get("link_flags", ()), variant=h.get("variant", ""))
        label = "%s-%d" % (hname, idx)
        remaining = budget - (time.time() - t0)
        # a run may use up to three fair shares of what is left (the last ones may use it all), so that
        # one oversized bound cannot starve the other runs of the check
        left = len(runs) - idx
        per = max(5.0, min(remaining, 3.0 * remaining / left))
        jpath = os.path.join(outdir, label + ".json")
        args = list(run["args"])
        cmd = [exe] + args + ["-name=" + label, "-out=" + outdir, "-json=" + jpath, "-deadline%.1f" % per]
        if "W" not in run:
            cmd.append("-W%d" % min(16, os.cpu_count() or 4))
        try:
            r = subprocess.run(cmd, stdout=subprocess.PIPE, stderr=subprocess.PIPE, text=True, timeout=per + 120)
            rc, err = r.returncode, r.stderr
        except subprocess.TimeoutExpired:
            rc, err = 2, "run timed out hard"
        if not os.path.exists(jpath):
            engine_errors.append("%s: no result (%s)" % (label, err.strip().split("\n")[-1] if err else rc))
            continue
        with open(jpath) as f:
            res = json.load(f)
        res["label"] = label
        res["run_args"] = args
        results.append(res)
        if res.get("engine_error") or res.get("unconfirmed"):
            engine_errors.append("%s: engine error / unconfirmed replay" % label)
        for fl in res["failures"]:
            if fl["verdict"] in ("DIVERGE", "ENGINE"):
                continue
            msg = symbolize(exe, fl.get("raw_msg") or fl["msg"])
            fl["msg_sym"] = msg
            with open(fl["replay"], "a") as rf:
                rf.write("harness %s\nproperty %s\nsymbolized %s\n" % (hname, prop, msg))
            k = match_known(known, prop, hname, args, msg)
            if k:
                known_seen.setdefault(k["id"], (k, fl, label))
            else:
                violations.append((label, fl))
    wall = time.time() - t0
    # evidence
    execs = sum(r["execs"] for r in results)
    ev = {
        "property_id": prop,
        "tier": tier,
        "seed": seed,
        "level": "model_checking",
        "wall_s": round(wall, 2),
        "violations": len(violations),
        "coverage": {
            "states": sum(r["states"] for r in results),
            "transitions": sum(r["transitions"] for r in results),
            "traces_validated_against_impl": execs,
            "evaluations": execs + sum(r.get("user_cases", 0) for r in results),
            "sequential_cases": sum(r.get("user_cases", 0) for r in results),
            "distinct_nontrivial": sum(r["last_pass_nontrivial"] for r in results),
            "distinct_outcomes": sum(r["outcomes"] for r in results),
            "rule": "every case is one complete execution of the real compiled libfiber code under the fmc scheduler; cases are "
                    "enumerated depth-first by schedule prefix (all choices of which kernel thread runs at every visible operation "
                    "in the conflict-closed site set, within the stated deviation bounds P=pre-emptions, D=delayed stores (x86-TSO), "
                    "E=environment deviations). distinct_nontrivial counts executions of the final pass of each run (pairwise distinct "
                    "schedules by construction) in which at least two kernel threads made conflicting accesses to the same location; "
                    "states = schedule-tree nodes (choice points) visited, transitions = scheduling steps (visible operations) executed.",
            "exhaustive": bool(results) and all(r["complete"] and r["closed"] for r in results) and not engine_errors,
            "runs": [
                {
                    "label": r["label"], "args": r["run_args"], "bounds": {"P": r["P"], "D": r["D"], "E": r["E"], "preemption_points": "operations on the object under test only (-focus)" if "-focus" in r["run_args"] else "every visible operation in the conflict-closed site set"},
                    "completed_P": r["completed_P"], "complete": r["complete"], "site_set_closed": r["closed"],
                    "executions": r["execs"], "final_pass_executions": r["last_pass_execs"], "outcomes": r["outcomes"],
                    "max_choice_points": r["max_cp"], "shared_sites": r["sites"], "kernel_threads": r["threads"],
                    "inconclusive": r["inconclusive"], "wall_s": r["wall_s"], "cases_enumerated_inside_one_execution": r.get("user_cases", 0),
                    "failures": [{"verdict": f["verdict"], "msg": f.get("msg_sym", f["msg"]), "count": f["count"], "cost_PDE": f["cost"]} for f in r["failures"]],
                } for r in results
            ],
            "samples": [s for r in results for s in r["samples"][:2]][:8] or ["(no multi-thread schedule sampled)"],
            "known_findings_seen": sorted(known_seen.keys()),
        },
        "assumptions": spec.get("assumptions", []) + [
            "bounded: schedules with more deviations than the stated P/D/E, larger programs and more kernel threads are not covered",
            "memory model: sequential consistency, plus one delayed store per thread (x86-TSO) in runs with D>0",
            "Linux kernel objects (epoll, sockets, eventfd standing in for timerfd) and libc are trusted",
        ],
    }
    if engine_errors:
        ev["coverage"]["engine_errors"] = engine_errors
    with open(os.path.join(EVID, prop + ".json"), "w") as f:
        json.dump(ev, f, indent=1)
    # report
    for r in results:
        print("run %-22s execs=%-8d completed_P=%d complete=%s closed=%s outcomes=%d failures=%d wall=%.1fs" % (
            r["label"], r["execs"], r["completed_P"], r["complete"], r["closed"], r["outcomes"], len(r["failures"]), r["wall_s"]))
    for kid, (k, fl, label) in sorted(known_seen.items()):
        print("KNOWN-FINDING: property=%s %s [%s; replay=%s]" % (prop, k["text"], kid, fl["replay"]))
    for label, fl in violations:
        print("VIOLATION property=%s replay=%s" % (prop, fl["replay"]))
        print("  %s x%d: %s" % (fl["verdict"], fl["count"], fl.get("msg_sym", fl["msg"])))
    for e in engine_errors:
        print("ENGINE-ERROR: " + e)
    print("check %s tier=%s: executions=%d exhaustive=%s violations=%d known=%d wall=%.1fs" % (
        prop, tier, execs, ev["coverage"]["exhaustive"], len(violations), len(known_seen), wall))
    if violations:
        return 1
    if engine_errors:
        return 2
    return 0


def replay(path, verbose):
    info = {}
    with open(path) as f:
        for line in f:
            k, _, v = line.rstrip("\n").partition(" ")
            info[k] = v
    hname = info.get("harness")
    if not hname:
        print("replay file lacks a harness line")
        return 2
    h = HARNESSES[hname]
    libdir = fmcbuild.build_lib()
    exe = fmcbuild.build_harness(h.get("src", hname), h["kind"], libdir, extra_wraps=h.get("wraps", ()), lib_objs=h.get("objs"), defs=h.get("defs", ()), extra_srcs=h.get("extra_srcs", ()), link_flags=h.get("link_flags", ()), variant=h.get("variant", ""))
    args = [a for a in info.get("args", "").split() if a.startswith("-D") or a.startswith("-S") or a.startswith("-horizon") or a.startswith("-L") or a in ("-focus", "-weakrmw")]
    cmd = [exe] + args + ["-replay=" + path] + (["-v"] if verbose else [])
    r = subprocess.run(cmd, stdout=subprocess.PIPE, stderr=subprocess.STDOUT, text=True)
    print(symbolize(exe, r.stdout))
    return r.returncode


def main():
    if len(sys.argv) < 2:
        print(__doc__)
        return 2
    if sys.argv[1] == "list":
        for k in sorted(CHECKS):
            print(k, CHECKS[k]["title"])
        return 0
    if sys.argv[1] == "build":
        libdir = fmcbuild.build_lib()
        for hname, h in sorted(HARNESSES.items()):
            fmcbuild.build_harness(h.get("src", hname), h["kind"], libdir, extra_wraps=h.get("wraps", ()), lib_objs=h.get("objs"), defs=h.get("defs", ()), extra_srcs=h.get("extra_srcs", ()), link_flags=h.get("link_flags", ()), variant=h.get("variant", ""))
        print("built %d harnesses in %s" % (len(HARNESSES), libdir))
        return 0
    if sys.argv[1] == "selftest":
        # the explorer must be able to FAIL: store-buffering litmus is unreachable under SC, reachable under TSO
        libdir = fmcbuild.build_lib()
        h = HARNESSES["h_litmus"]
        exe = fmcbuild.build_harness("h_litmus", h["kind"], libdir)
        ok = True
        for mode in ("0", "1"):
            sc = subprocess.run([exe, "-P2", "-Dmode=" + mode], capture_output=True).returncode
            tso = subprocess.run([exe, "-P1", "-S1", "-Dmode=" + mode], capture_output=True).returncode
            print("litmus SB mode=%s: SC P2 -> rc %d (expect 0), TSO P1 D1 -> rc %d (expect 1)" % (mode, sc, tso))
            ok = ok and sc == 0 and tso == 1
        return 0 if ok else 2
    if sys.argv[1] == "check":
        prop = sys.argv[2]
        tier = os.environ.get("VERIF_TIER", "quick")
        if "--tier" in sys.argv:
            tier = sys.argv[sys.argv.index("--tier") + 1]
        return run_check(prop, tier)
    if sys.argv[1] == "replay":
        return replay(sys.argv[2], "-v" in sys.argv)
    print(__doc__)
    return 2


if __name__ == "__main__":
    sys.exit(main())
