#!/usr/bin/env python3
"""Run checks against a seeded (bug-injected) copy of the repository.

  seedtest.py <patch.diff> <ID> [<ID> ...] [--tier quick|thorough]

Copies /repo's working tree (src, include) to a scratch directory outside /repo and /verif,
applies the patch there, runs the given checks with VERIF_REPO pointing at the copy and all
outputs redirected to the scratch directory, prints one line per check, removes the copy.
"""
import os, shutil, subprocess, sys, tempfile

def main():
    args = [a for a in sys.argv[1:] if not a.startswith("--")]
    tier = "quick"
    if "--tier" in sys.argv:
        tier = sys.argv[sys.argv.index("--tier") + 1]
        args = [a for a in args if a != tier]
    patch, ids = os.path.abspath(args[0]), args[1:]
    d = tempfile.mkdtemp(prefix="seedtest_", dir="/tmp")
    try:
        for sub in ("src", "include"):
            shutil.copytree(os.path.join("/repo", sub), os.path.join(d, sub))
        r = subprocess.run(["patch", "-p1", "-s", "-d", d, "-i", patch], capture_output=True, text=True)
        if r.returncode:
            print("PATCH FAILED", r.stdout, r.stderr)
            return 2
        env = dict(os.environ, VERIF_REPO=d, VERIF_SCRATCH=os.path.join(d, "scratch"))
        rc_all = 0
        for i in ids:
            r = subprocess.run([sys.executable, os.path.join(os.path.dirname(os.path.abspath(__file__)), "run.py"), "check", i, "--tier", tier], env=env, capture_output=True, text=True)
            lines = [l for l in r.stdout.splitlines() if l.startswith(("VIOLATION", "  ", "check ", "KNOWN", "ENGINE"))]
            print("%s rc=%d" % (i, r.returncode))
            for l in lines[:8]:
                print("   " + l[:260])
            if r.returncode == 2:
                print(r.stdout[-600:], r.stderr[-600:])
            rc_all |= r.returncode
        return 0
    finally:
        shutil.rmtree(d, ignore_errors=True)
        # library builds of the scratch copy are removed by fmcbuild's stale-build cleanup

if __name__ == "__main__":
    sys.exit(main())
