#!/usr/bin/env python3
"""Build the instrumented libfiber objects, the fmc runtime and harness binaries.

Everything is rebuilt from the *current working tree* of the repository; build
directories are keyed by a hash of the source contents so an unchanged tree is
not recompiled and an edited one always is.
"""
import concurrent.futures
import fcntl
import hashlib
import os
import subprocess
import sys

VERIF = os.path.dirname(os.path.abspath(__file__))
ENGINE = os.path.join(VERIF, "engine")
HARNESS = os.path.join(VERIF, "harness")
BUILD = os.path.join(VERIF, "build")

LIB_SRCS = [
    "fiber_context.c", "fiber_manager.c", "fiber_mutex.c", "fiber_semaphore.c",
    "fiber_spinlock.c", "fiber_cond.c", "fiber.c", "fiber_barrier.c", "fiber_io.c",
    "fiber_rwlock.c", "hazard_pointer.c", "work_stealing_deque.c", "work_queue.c",
    "fiber_scheduler_wsd.c", "fiber_event_native.c",
]
ENGINE_SRCS = ["fmc_rt.c", "fmc_arena.c", "fmc_explore.c", "fmc_hist.c"]
GUARD = "LIBFIBER_VERIF"
CC = os.environ.get("FMC_CC", "gcc")
LIB_FLAGS = ["-O2", "-g", "-std=gnu11", "-fsanitize=thread", "-D" + GUARD,
             "-DFIBER_FAST_SWITCHING", "-DFIBER_STACK_MALLOC", "-DNDEBUG",
             "-fno-omit-frame-pointer"]
WRAPS = ["fiber_context_swap", "fiber_context_init", "fiber_context_init_from_thread",
         "fiber_context_destroy", "fiber_scheduler_schedule", "fiber_scheduler_next",
         "wsd_work_stealing_deque_push_bottom", "wsd_work_stealing_deque_pop_bottom"]


def repo_dir():
    return os.environ.get("VERIF_REPO", "/repo")


def _hash_files(paths, extra=""):
    h = hashlib.sha256(extra.encode())
    for p in sorted(paths):
        h.update(p.encode())
        with open(p, "rb") as f:
            h.update(f.read())
    return h.hexdigest()[:16]


def _run(cmd):
    r = subprocess.run(cmd, stdout=subprocess.PIPE, stderr=subprocess.STDOUT, text=True)
    if r.returncode != 0:
        sys.stderr.write("BUILD FAILED: %s\n%s\n" % (" ".join(cmd), r.stdout))
        raise SystemExit(2)
    return r.stdout


def _compile_many(jobs):
    with concurrent.futures.ThreadPoolExecutor(max_workers=16) as ex:
        list(ex.map(_run, jobs))


def build_lib(extra_flags=()):
    """returns the directory holding the instrumented library + runtime objects"""
    repo = repo_dir()
    srcs = [os.path.join(repo, "src", s) for s in LIB_SRCS]
    incs = [os.path.join(repo, "include", f) for f in sorted(os.listdir(os.path.join(repo, "include")))]
    eng = [os.path.join(ENGINE, f) for f in sorted(os.listdir(ENGINE))]
    key = _hash_files(srcs + incs + eng, CC + " ".join(LIB_FLAGS) + " ".join(extra_flags))
    d = os.path.join(BUILD, "lib-" + key)
    os.makedirs(BUILD, exist_ok=True)
    with open(os.path.join(BUILD, ".lock"), "w") as lk:
        fcntl.flock(lk, fcntl.LOCK_EX)
        if os.path.exists(os.path.join(d, ".done")):
            os.utime(d)  # in use: keeps it out of the stale-build cleanup of concurrent runs
            return d
        os.makedirs(d, exist_ok=True)
        jobs = []
        inc = ["-I", os.path.join(repo, "include")]
        for s in srcs:
            o = os.path.join(d, os.path.basename(s)[:-2] + ".o")
            jobs.append([CC] + LIB_FLAGS + list(extra_flags) + inc + ["-c", s, "-o", o])
        for s in ENGINE_SRCS:
            o = os.path.join(d, s[:-2] + ".o")
            jobs.append(["gcc", "-O2", "-g", "-std=gnu11", "-Wall", "-Wno-unused", "-fno-omit-frame-pointer", "-I", ENGINE, "-c", os.path.join(ENGINE, s), "-o", o])
        # the --wrap shims need the library's struct layouts as compiled under the sanitizer
        jobs.append(["gcc", "-O2", "-g", "-std=gnu11", "-Wall", "-Wno-unused", "-fno-omit-frame-pointer", "-D__SANITIZE_THREAD__=1", "-D" + GUARD,
                     "-DFIBER_FAST_SWITCHING", "-DFIBER_STACK_MALLOC", "-DNDEBUG", "-I", ENGINE] + inc +
                    ["-c", os.path.join(ENGINE, "fmc_wrap.c"), "-o", os.path.join(d, "fmc_wrap.o")])
        jobs.append(["gcc", "-O2", "-g", "-shared", "-fPIC", "-I", ENGINE, os.path.join(ENGINE, "fmc_env.c"), "-o", os.path.join(d, "libfmcenv.so")])
        _compile_many(jobs)
        open(os.path.join(d, ".done"), "w").close()
        # keep the build directory small: drop stale library builds
        for e in os.listdir(BUILD):
            if e.startswith("lib-") and e != "lib-" + key:
                p = os.path.join(BUILD, e)
                if os.path.getmtime(p) < os.path.getmtime(d) - 6 * 3600:  # never a build another run may still be using
                    subprocess.run(["rm", "-rf", p])
    return d


def build_harness(name, kind, libdir, extra_wraps=(), lib_objs=None, defs=(), extra_srcs=(), link_flags=(), variant=""):
    """kind: 'raw' (pthreads on one data structure) or 'rt' (whole fiber runtime)"""
    repo = repo_dir()
    src = os.path.join(HARNESS, name + ".c")
    hdrs = [os.path.join(HARNESS, f) for f in os.listdir(HARNESS) if f.endswith(".h")]
    xs = [os.path.join(repo, rel) for rel, _ in extra_srcs]
    key = _hash_files([src] + hdrs + xs, "v2" + kind + " ".join(extra_wraps) + " ".join(defs) + repr(extra_srcs) + " ".join(link_flags))
    exe = os.path.join(libdir, "%s%s-%s" % (name, variant, key))
    if os.path.exists(exe):
        return exe
    obj = exe + ".o"
    _run([CC] + LIB_FLAGS + list(defs) + ["-I", ENGINE, "-I", HARNESS, "-I", os.path.join(repo, "include"), "-c", src, "-o", obj])
    xobjs = []
    for i, (rel, flags) in enumerate(extra_srcs):
        # a source of the repository compiled specially for this harness (e.g. fiber_context.c per stack strategy)
        xo = "%s.x%d.o" % (exe, i)
        _run([CC, "-O2", "-g", "-std=gnu11", "-DNDEBUG", "-fno-omit-frame-pointer", "-I", os.path.join(repo, "include")] + list(flags) + ["-c", os.path.join(repo, rel), "-o", xo])
        xobjs.append(xo)
    eng = [os.path.join(libdir, s[:-2] + ".o") for s in ENGINE_SRCS]
    if kind == "raw":
        objs = [os.path.join(libdir, o) for o in (lib_objs if lib_objs is not None else ["hazard_pointer.o", "work_stealing_deque.o", "work_queue.o"])]
        wraps = list(extra_wraps)
        link = ["gcc", "-no-pie"] + list(link_flags) + ["-o", exe + ".tmp", obj] + xobjs + objs + eng
    else:
        objs = [os.path.join(libdir, s[:-2] + ".o") for s in LIB_SRCS] + [os.path.join(libdir, "fmc_wrap.o")]
        wraps = WRAPS + list(extra_wraps)
        link = ["gcc", "-no-pie", "-rdynamic", "-o", exe + ".tmp", obj] + objs + eng + ["-L", libdir, "-Wl,--no-as-needed", "-lfmcenv", "-Wl,--as-needed", "-Wl,-rpath," + libdir]
    link += ["-Wl,--wrap=" + w for w in wraps] + ["-lpthread", "-ldl", "-lm"]
    _run(link)
    os.rename(exe + ".tmp", exe)
    return exe


if __name__ == "__main__":
    d = build_lib()
    print(d)
    for a in sys.argv[1:]:
        name, kind = a.split(":")
        print(build_harness(name, kind, d))
