#!/usr/bin/env python3
# dev helper: python3 dev.py <harness> <raw|rt> [wraps=a,b] -- engine args
import sys, subprocess, fmcbuild as b
name, kind = sys.argv[1], sys.argv[2]
rest = sys.argv[3:]
wraps = []
if rest and rest[0].startswith("wraps="):
    wraps = rest[0][6:].split(","); rest = rest[1:]
if rest and rest[0] == "--": rest = rest[1:]
d = b.build_lib()
h = b.build_harness(name, kind, d, extra_wraps=wraps)
sys.exit(subprocess.run([h] + rest).returncode)
