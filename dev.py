#!/usr/bin/env python3
# dev helper: python3 dev.py <harness> [kind] -- engine args   (build settings from checks.HARNESSES when listed)
import sys, subprocess, fmcbuild as b
from checks import HARNESSES
name = sys.argv[1]
rest = sys.argv[2:]
h = HARNESSES.get(name, {"kind": rest[0] if rest and rest[0] in ("raw", "rt") else "raw"})
if rest and rest[0] in ("raw", "rt"): rest = rest[1:]
if rest and rest[0] == "--": rest = rest[1:]
d = b.build_lib()
exe = b.build_harness(h.get("src", name), h["kind"], d, extra_wraps=h.get("wraps", ()), lib_objs=h.get("objs"), defs=h.get("defs", ()), extra_srcs=h.get("extra_srcs", ()), link_flags=h.get("link_flags", ()), variant=h.get("variant", ""))
sys.exit(subprocess.run([exe] + rest).returncode)
