#!/usr/bin/env python3
import json, os
root = "/verif/seeded"
rows = []
for d in sorted(os.listdir(root)):
    m = os.path.join(root, d, "meta.json")
    if not os.path.exists(m):
        continue
    j = json.load(open(m))
    rows.append((d, j))
out = ["# Seeded property-breaking changes", "",
       "Each directory holds a bug injection written by an independent sub-agent that was given only the text of one",
       "property and a scratch worktree of the repository (nothing from /verif): `patch.diff`, the agent's own",
       "demonstration (`run.sh`, fails with the patch, passes without) and `meta.json`. Every one was re-confirmed here",
       "(suite passes with the patch, demo fails with it and passes without it) before being kept. `detected_by_checks`",
       "says whether `seedtest.py <patch> <ID>` reports a VIOLATION and which run does.", "",
       "| seed | property | needs, in order to manifest | detected | by |", "|---|---|---|---|---|"]
for d, j in rows:
    out.append("| %s | %s | %s | %s | %s |" % (d, j.get("property"), str(j.get("needs", "")).replace("|", "/").replace("\n", " ")[:300], j.get("detected_by_checks"), str(j.get("detection", "")).replace("|", "/")[:300]))
open(os.path.join(root, "README.md"), "w").write("\n".join(out) + "\n")
print(len(rows), "seeds")
