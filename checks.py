"""Which harness runs decide which property, per tier.

HARNESSES: how each harness binary is built (kind raw = pthreads on one data
structure, rt = whole fiber runtime with the --wrap observers).
CHECKS[<ID>][tier] = list of runs; each run is one exhaustive exploration of
one small program with explicit bounds (-P pre-emptions, -S delayed stores,
-E environment deviations; -D<name>=<v> are program parameters).
"""

HARNESSES = {
    "h_spinlock": {"kind": "raw", "wraps": ["fiber_manager_get", "fmc_spin_hint"]},
    "h_mutex": {"kind": "rt"},
    "h_barrier": {"kind": "rt"},
}


def R(harness, *args):
    return {"harness": harness, "args": list(args)}


CHECKS = {
    "C03": {
        "title": "mutex: mutual exclusion and hand-off",
        "level_text": "Every schedule (up to the stated pre-emption bound) of 2-3 fibers doing lock/trylock/unlock on the real fiber_mutex under the real runtime with 1-3 kernel threads is executed; ghost occupancy, critical-section visibility, end-state of the lock word and waiter list, and no-stranded-waiter (deadlock at quiescence) are checked on each. This is the right level because the failures the property forbids live in few-instruction windows between the counter update and the enqueue/context switch, which only systematic schedule enumeration reaches.",
        "quick": [
            R("h_mutex", "-P2", "-DN=2", "-Dshape=0"),
            R("h_mutex", "-P2", "-DN=2", "-Dshape=3"),
            R("h_mutex", "-P1", "-DN=2", "-Dshape=1"),
            R("h_mutex", "-P1", "-DN=2", "-Dshape=4"),
            R("h_mutex", "-P2", "-DN=1", "-Dshape=1"),
        ],
        "thorough": [
            R("h_mutex", "-P3", "-DN=2", "-Dshape=0"),
            R("h_mutex", "-P2", "-DN=2", "-Dshape=1"),
            R("h_mutex", "-P2", "-DN=2", "-Dshape=2"),
            R("h_mutex", "-P2", "-DN=2", "-Dshape=3"),
            R("h_mutex", "-P2", "-DN=2", "-Dshape=4"),
            R("h_mutex", "-P2", "-DN=2", "-Dshape=5"),
            R("h_mutex", "-P2", "-DN=3", "-Dshape=1"),
        ],
    },
    "C12": {
        "title": "barrier: rounds do not mix, reusable at once",
        "level_text": "All schedules within the pre-emption bound of count fibers running 2-3 back-to-back rounds on the real fiber_barrier (count 1..3, 1-2 kernel threads); per-round arrival counts, exactly-one serial fiber and everybody-returns are checked on every execution.",
        "quick": [
            R("h_barrier", "-P2", "-DN=2", "-Dcount=2", "-Drounds=2"),
            R("h_barrier", "-P1", "-DN=2", "-Dcount=3", "-Drounds=2"),
            R("h_barrier", "-P1", "-DN=2", "-Dcount=1", "-Drounds=3"),
            R("h_barrier", "-P1", "-DN=1", "-Dcount=3", "-Drounds=3"),
        ],
        "thorough": [
            R("h_barrier", "-P3", "-DN=2", "-Dcount=2", "-Drounds=2"),
            R("h_barrier", "-P2", "-DN=2", "-Dcount=3", "-Drounds=2"),
            R("h_barrier", "-P2", "-DN=2", "-Dcount=2", "-Drounds=3"),
            R("h_barrier", "-P2", "-DN=2", "-Dcount=3", "-Drounds=2", "-Dmain=1"),
        ],
    },
    "C18": {
        "title": "spinlock: mutual exclusion, FIFO tickets, trylock never steals",
        "level_text": "All schedules within the pre-emption bound of 2-3 kernel threads doing lock/trylock/unlock on the real fiber_spinlock, including ticket counters preset to wrap around; the oracle replays the exact log of atomic operations the code performed on the lock word (tickets taken, CAS of trylock, unlock stores) against acquisition/release notes.",
        "quick": [
            R("h_spinlock", "-P3", "-Dshape=0"),
            R("h_spinlock", "-P3", "-Dshape=1"),
            R("h_spinlock", "-P3", "-Dshape=4", "-Dwrap=1"),
            R("h_spinlock", "-P3", "-Dshape=5"),
            R("h_spinlock", "-P1", "-Dshape=2"),
            R("h_spinlock", "-P1", "-Dshape=3", "-Dwrap=1"),
        ],
        "thorough": [
            R("h_spinlock", "-P6", "-Dshape=0"),
            R("h_spinlock", "-P6", "-Dshape=1", "-Dwrap=1"),
            R("h_spinlock", "-P5", "-Dshape=4"),
            R("h_spinlock", "-P6", "-Dshape=5", "-Dwrap=1"),
            R("h_spinlock", "-P2", "-Dshape=2"),
            R("h_spinlock", "-P2", "-Dshape=3", "-Dwrap=1"),
        ],
    },
}

# properties for which no check is claimed (kept current; reason per property)
NOT_APPLICABLE = {}
