"""Which harness runs decide which property, per tier.

HARNESSES: how each harness binary is built (kind raw = pthreads on one data
structure, rt = whole fiber runtime with the --wrap observers).
CHECKS[<ID>][tier] = list of runs; each run is one exhaustive exploration of
one small program with explicit bounds (-P pre-emptions, -S delayed stores,
-E environment deviations; -D<name>=<v> are program parameters).
"""

HARNESSES = {
    "h_spinlock": {"kind": "raw", "wraps": ["fiber_manager_get", "fmc_spin_hint"], "objs": ["fiber_spinlock.o"]},
    "h_mutex": {"kind": "rt"},
    "h_barrier": {"kind": "rt"},
    "h_yield": {"kind": "rt"},
    "h_join": {"kind": "rt"},
    "h_cond": {"kind": "rt"},
    "h_sem": {"kind": "rt"},
    "h_rwlock": {"kind": "rt"},
    "h_queues": {"kind": "raw"},
    "h_ring": {"kind": "raw"},
    "h_workq": {"kind": "raw"},
    "h_deque": {"kind": "raw"},
    "h_litmus": {"kind": "raw"},
    "h_mpmc": {"kind": "raw"},
    "h_hazard": {"kind": "raw"},
    "h_hpseq": {"kind": "raw"},
    "h_dwcas": {"kind": "raw"},
}

SEQ = ["-P0", "-W1", "-horizon2000000000", "-L0=2000000000", "-L=2000000000", "-ctimeout300"]


def R(harness, *args):
    return {"harness": harness, "args": list(args)}


CHECKS = {
    "C03": {
        "title": "mutex: mutual exclusion and hand-off",
        "level_text": "Every schedule (up to the stated pre-emption bound) of 2-3 fibers doing lock/trylock/unlock on the real fiber_mutex under the real runtime with 1-3 kernel threads is executed; ghost occupancy, critical-section visibility, end-state of the lock word and waiter list, and no-stranded-waiter (deadlock at quiescence) are checked on each. This is the right level because the failures the property forbids live in few-instruction windows between the counter update and the enqueue/context switch, which only systematic schedule enumeration reaches.",
        "quick": [
            R("h_mutex", "-P2", "-DN=2", "-Dshape=0"),
            R("h_mutex", "-P2", "-DN=2", "-Dshape=3"),
            R("h_mutex", "-P1", "-DN=2", "-Dshape=1"),
            R("h_mutex", "-P1", "-DN=2", "-Dshape=4"),
            R("h_mutex", "-P2", "-DN=1", "-Dshape=1"),
        ],
        "thorough": [
            R("h_mutex", "-P3", "-DN=2", "-Dshape=0"),
            R("h_mutex", "-P2", "-DN=2", "-Dshape=1"),
            R("h_mutex", "-P2", "-DN=2", "-Dshape=2"),
            R("h_mutex", "-P2", "-DN=2", "-Dshape=3"),
            R("h_mutex", "-P2", "-DN=2", "-Dshape=4"),
            R("h_mutex", "-P2", "-DN=2", "-Dshape=5"),
            R("h_mutex", "-P2", "-DN=3", "-Dshape=1"),
        ],
    },
    "C04": {
        "title": "join / tryjoin / detach",
        "level_text": "All schedules within the pre-emption bound of six small programs (join, tryjoin loop, detach racing with completion, detach-then-join, two joiners on one fiber, join of an already finished fiber) on the real runtime with 1-2 kernel threads: result value, success only after the function returned, at most one successful joiner, and - through the --wrap observer and the heap shadow - reclamation exactly once, only when finished/saved/not queued and only after a join/tryjoin/detach began, with no access to the fiber, its stack or its list node afterwards.",
        "quick": [
            R("h_join", "-P2", "-DN=2", "-Dsc=1"),
            R("h_join", "-P2", "-DN=2", "-Dsc=2"),
            R("h_join", "-P2", "-DN=2", "-Dsc=3"),
            R("h_join", "-P2", "-DN=2", "-Dsc=4"),
            R("h_join", "-P1", "-DN=2", "-Dsc=5"),
            R("h_join", "-P2", "-DN=2", "-Dsc=6"),
            R("h_join", "-P2", "-DN=1", "-Dsc=5"),
        ],
        "thorough": [
            R("h_join", "-P3", "-DN=2", "-Dsc=1"),
            R("h_join", "-P3", "-DN=2", "-Dsc=3"),
            R("h_join", "-P2", "-DN=2", "-Dsc=2"),
            R("h_join", "-P2", "-DN=2", "-Dsc=5"),
            R("h_join", "-P3", "-DN=2", "-Dsc=6"),
            R("h_join", "-P2", "-DN=3", "-Dsc=1"),
            R("h_join", "-P2", "-DN=3", "-Dsc=3"),
        ],
    },
    "C05": {
        "title": "condition variable: atomic unlock-and-wait, no lost signal",
        "level_text": "All schedules within the pre-emption bound of 1-2 waiters (optionally re-waiting, optionally one more waiter nobody signals) and a signaller/broadcaster that first observes under the user mutex that the waiters have begun waiting, on the real fiber_cond with 1-2 kernel threads; checked on every execution: everybody a signal was aimed at returns (at quiescence), no release without a credit, wait returns with the mutex held, waiter_count and the list are consistent at the end.",
        "quick": [
            R("h_cond", "-P2", "-DN=2", "-DW=1", "-Dmode=0", "-Dhold=1"),
            R("h_cond", "-P2", "-DN=2", "-DW=1", "-Dmode=0", "-Dhold=0"),
            R("h_cond", "-P1", "-DN=2", "-DW=2", "-Dmode=1", "-Dhold=1"),
            R("h_cond", "-P1", "-DN=2", "-DW=2", "-Dmode=0", "-Dhold=0"),
            R("h_cond", "-P1", "-DN=2", "-DW=1", "-Dmode=0", "-Dhold=0", "-Drewait=1"),
            R("h_cond", "-P1", "-DN=2", "-DW=1", "-Dmode=0", "-Dhold=1", "-Dextra=1"),
            R("h_cond", "-P2", "-DN=1", "-DW=2", "-Dmode=1", "-Dhold=0"),
        ],
        "thorough": [
            R("h_cond", "-P3", "-DN=2", "-DW=1", "-Dmode=0", "-Dhold=1"),
            R("h_cond", "-P2", "-DN=2", "-DW=2", "-Dmode=1", "-Dhold=1"),
            R("h_cond", "-P2", "-DN=2", "-DW=2", "-Dmode=1", "-Dhold=0"),
            R("h_cond", "-P2", "-DN=2", "-DW=2", "-Dmode=0", "-Dhold=0"),
            R("h_cond", "-P2", "-DN=2", "-DW=1", "-Dmode=0", "-Dhold=0", "-Drewait=1"),
            R("h_cond", "-P2", "-DN=2", "-DW=1", "-Dmode=0", "-Dhold=1", "-Dextra=1"),
            R("h_cond", "-P2", "-DN=3", "-DW=1", "-Dmode=0", "-Dhold=0"),
        ],
    },
    "C06": {
        "title": "semaphore: never over-admits, never loses a post",
        "level_text": "All schedules within the pre-emption bound of 2-3 fibers running wait/trywait/post scripts on the real fiber_semaphore for initial values 0..2 with 1-2 kernel threads; over-admission is checked at every successful wait, trywait must not switch fibers, and when every kernel thread has gone idle the value must equal initial+posts-successful waits-blocked with nobody blocked while a unit is available.",
        "quick": [
            R("h_sem", "-P2", "-DN=2", "-Dshape=0", "-Dinit=0"),
            R("h_sem", "-P1", "-DN=2", "-Dshape=1", "-Dinit=0"),
            R("h_sem", "-P2", "-DN=2", "-Dshape=4", "-Dinit=0"),
            R("h_sem", "-P2", "-DN=2", "-Dshape=5", "-Dinit=0"),
            R("h_sem", "-P1", "-DN=2", "-Dshape=3", "-Dinit=1"),
            R("h_sem", "-P1", "-DN=2", "-Dshape=2", "-Dinit=1"),
            R("h_sem", "-P1", "-DN=2", "-Dshape=6", "-Dinit=0"),
            R("h_sem", "-P1", "-DN=2", "-Dshape=7", "-Dinit=2"),
            R("h_sem", "-P2", "-DN=1", "-Dshape=1", "-Dinit=0"),
        ],
        "thorough": [
            R("h_sem", "-P3", "-DN=2", "-Dshape=0", "-Dinit=0"),
            R("h_sem", "-P2", "-DN=2", "-Dshape=1", "-Dinit=0"),
            R("h_sem", "-P2", "-DN=2", "-Dshape=2", "-Dinit=1"),
            R("h_sem", "-P2", "-DN=2", "-Dshape=3", "-Dinit=1"),
            R("h_sem", "-P2", "-DN=2", "-Dshape=6", "-Dinit=0"),
            R("h_sem", "-P2", "-DN=2", "-Dshape=7", "-Dinit=2"),
            R("h_sem", "-P2", "-DN=3", "-Dshape=1", "-Dinit=0"),
        ],
    },
    "C07": {
        "title": "read/write lock",
        "level_text": "All schedules within the pre-emption bound of 2-3 fibers running rdlock/wrlock/tryrdlock/trywrlock scripts (including a batch of waiting readers handed off by a writer) on the real fiber_rwlock with 1-2 kernel threads; ghost occupancy at each acquisition, try variants must not switch fibers, nobody stranded, lock word and waiter lists empty at the end.",
        "quick": [
            R("h_rwlock", "-P2", "-DN=2", "-Dshape=0"),
            R("h_rwlock", "-P1", "-DN=2", "-Dshape=1"),
            R("h_rwlock", "-P1", "-DN=2", "-Dshape=2"),
            R("h_rwlock", "-P1", "-DN=2", "-Dshape=3"),
            R("h_rwlock", "-P1", "-DN=2", "-Dshape=4"),
            R("h_rwlock", "-P2", "-DN=2", "-Dshape=5"),
            R("h_rwlock", "-P1", "-DN=2", "-Dshape=6"),
            R("h_rwlock", "-P2", "-DN=1", "-Dshape=1"),
        ],
        "thorough": [
            R("h_rwlock", "-P3", "-DN=2", "-Dshape=0"),
            R("h_rwlock", "-P2", "-DN=2", "-Dshape=1"),
            R("h_rwlock", "-P2", "-DN=2", "-Dshape=2"),
            R("h_rwlock", "-P2", "-DN=2", "-Dshape=3"),
            R("h_rwlock", "-P2", "-DN=2", "-Dshape=4"),
            R("h_rwlock", "-P2", "-DN=2", "-Dshape=6"),
            R("h_rwlock", "-P2", "-DN=2", "-Dshape=7"),
            R("h_rwlock", "-P2", "-DN=3", "-Dshape=1"),
        ],
    },
    "C10": {
        "title": "fiber_yield fairness",
        "level_text": "The quantifier is over programs on ONE kernel thread (deterministic, no stealing to mask starvation): every vector of yield counts for 2-4 fibers (main polling with fiber_yield included), fibers created up front or chained, enumerated as cost-free input choices, each executed on the real runtime; a ghost bypass counter per ready fiber must stay within 2*n.",
        "quick": [
            R("h_yield", "-P0", "-DN=1", "-Dn=2", "-DY=8"),
            R("h_yield", "-P0", "-DN=1", "-Dn=3", "-DY=6"),
            R("h_yield", "-P0", "-DN=1", "-Dn=3", "-DY=6", "-Dchain=1"),
            R("h_yield", "-P0", "-DN=1", "-Dn=4", "-DY=4"),
        ],
        "thorough": [
            R("h_yield", "-P0", "-DN=1", "-Dn=2", "-DY=15"),
            R("h_yield", "-P0", "-DN=1", "-Dn=3", "-DY=12"),
            R("h_yield", "-P0", "-DN=1", "-Dn=3", "-DY=12", "-Dchain=1"),
            R("h_yield", "-P0", "-DN=1", "-Dn=4", "-DY=8"),
            R("h_yield", "-P0", "-DN=1", "-Dn=4", "-DY=8", "-Dchain=1"),
            R("h_yield", "-P0", "-DN=1", "-Dn=5", "-DY=5"),
        ],
    },
    "C12": {
        "title": "barrier: rounds do not mix, reusable at once",
        "level_text": "All schedules within the pre-emption bound of count fibers running 2-3 back-to-back rounds on the real fiber_barrier (count 1..3, 1-2 kernel threads); per-round arrival counts, exactly-one serial fiber and everybody-returns are checked on every execution.",
        "quick": [
            R("h_barrier", "-P2", "-DN=2", "-Dcount=2", "-Drounds=2"),
            R("h_barrier", "-P1", "-DN=2", "-Dcount=3", "-Drounds=2"),
            R("h_barrier", "-P1", "-DN=2", "-Dcount=1", "-Drounds=3"),
            R("h_barrier", "-P1", "-DN=1", "-Dcount=3", "-Drounds=3"),
        ],
        "thorough": [
            R("h_barrier", "-P3", "-DN=2", "-Dcount=2", "-Drounds=2"),
            R("h_barrier", "-P2", "-DN=2", "-Dcount=3", "-Drounds=2"),
            R("h_barrier", "-P2", "-DN=2", "-Dcount=2", "-Drounds=3"),
            R("h_barrier", "-P2", "-DN=2", "-Dcount=3", "-Drounds=2", "-Dmain=1"),
        ],
    },
    "C13": {
        "title": "MPMC FIFO is a linearizable queue",
        "level_text": "All schedules within the pre-emption bound (plus all placements of one delayed store sequence per execution under x86-TSO) of 2-3 threads pushing and popping on the real mpmc_fifo with real hazard pointers, a scan at every retirement, retired nodes really freed and poisoned (or immediately recycled into the next push to force address reuse); each complete history is checked by brute-force linearizability against a FIFO queue with the relaxation the property grants, and every node access is checked against a heap shadow.",
        "quick": [
            R("h_mpmc", "-P2", "-Dshape=3"),
            R("h_mpmc", "-P2", "-Dshape=4", "-Drecycle=1"),
            R("h_mpmc", "-P2", "-Dshape=5"),
            R("h_mpmc", "-P1", "-Dshape=0"),
            R("h_mpmc", "-P1", "-Dshape=1", "-Drecycle=1"),
            R("h_mpmc", "-P1", "-Dshape=2"),
            R("h_mpmc", "-P1", "-S1", "-Dshape=3"),
            R("h_mpmc", "-P1", "-S1", "-Dshape=5"),
        ],
        "thorough": [
            R("h_mpmc", "-P3", "-Dshape=3"),
            R("h_mpmc", "-P3", "-Dshape=4", "-Drecycle=1"),
            R("h_mpmc", "-P3", "-Dshape=5"),
            R("h_mpmc", "-P2", "-Dshape=0"),
            R("h_mpmc", "-P2", "-Dshape=1", "-Drecycle=1"),
            R("h_mpmc", "-P2", "-Dshape=2"),
            R("h_mpmc", "-P2", "-S1", "-Dshape=3"),
            R("h_mpmc", "-P2", "-S1", "-Dshape=5"),
        ],
    },
    "C14": {
        "title": "hazard pointers: nothing reclaimed while protected; bounded garbage",
        "level_text": "Three exhaustive enumerations on the real hazard_pointer.c: (a) all schedules within the pre-emption bound, and all x86-TSO placements of one delayed store sequence, of a publish/validate/read reader, a swap/retire/scan writer and a record that registers mid-run, with a ghost protected-set checked inside the reclamation callback; (b) sequentially, every assignment of hazard slots to nodes (incl. duplicates) times every retirement order for 1-3 records: scan reclaims exactly the unprotected nodes; (c) sequentially, every protection pattern for N=1..3, K=1..2 and records joining mid-run: retired_count stays below the threshold and unprotected nodes are reclaimed within threshold further retirements.",
        "quick": [
            R("h_hazard", "-P2", "-Dshape=2"),
            R("h_hazard", "-P2", "-Dshape=0"),
            R("h_hazard", "-P2", "-Dshape=1"),
            R("h_hazard", "-P1", "-S1", "-Dshape=2"),
            R("h_hazard", "-P1", "-S1", "-Dshape=0"),
            R("h_hpseq", "-Dmode=0", *SEQ),
            R("h_hpseq", "-Dmode=1", *SEQ),
        ],
        "thorough": [
            R("h_hazard", "-P4", "-Dshape=2"),
            R("h_hazard", "-P3", "-Dshape=0"),
            R("h_hazard", "-P3", "-Dshape=1"),
            R("h_hazard", "-P2", "-S1", "-Dshape=2", "-Dreads=3"),
            R("h_hazard", "-P2", "-S1", "-Dshape=0"),
            R("h_hazard", "-P2", "-S1", "-Dshape=1"),
            R("h_hpseq", "-Dmode=0", *SEQ),
            R("h_hpseq", "-Dmode=1", *SEQ),
        ],
    },
    "C15": {
        "title": "MPSC / SPSC / relaxed MPSC queues",
        "level_text": "All schedules within the pre-emption bound (and, with D=1, all placements of one delayed store per thread under x86-TSO) of 1-2 producer threads and one consumer thread on the real mpsc_fifo / spsc_fifo / mpscr_fifo; every complete call/return history is checked by brute-force linearizability against a FIFO (per-producer FIFOs for the relaxed queue) with the relaxation the property grants (empty allowed while a push overlaps); popped nodes are freed at once under a heap shadow.",
        "quick": [
            R("h_queues", "-P2", "-Dq=0"),
            R("h_queues", "-P3", "-Dq=1"),
            R("h_queues", "-P2", "-Dq=2"),
            R("h_queues", "-P1", "-S1", "-Dq=0"),
            R("h_queues", "-P1", "-S1", "-Dq=1"),
        ],
        "thorough": [
            R("h_queues", "-P3", "-Dq=0"),
            R("h_queues", "-P4", "-Dq=1"),
            R("h_queues", "-P2", "-Dq=2", "-Dpops=5"),
            R("h_queues", "-P2", "-S1", "-Dq=0"),
            R("h_queues", "-P2", "-S1", "-Dq=1"),
            R("h_queues", "-P2", "-S1", "-Dq=2"),
        ],
    },
    "C16": {
        "title": "lock-free ring buffer",
        "level_text": "All schedules within the pre-emption bound of 2-3 threads doing trypush/trypop on the real lockfree_ring_buffer of capacity 2 and 4 (slots reused within the run, counters crossing 2^32); every history is checked by brute-force linearizability against a bounded FIFO where an operation may additionally fail if another operation overlapped it.",
        "quick": [
            R("h_ring", "-P2", "-Dshape=0"),
            R("h_ring", "-P2", "-Dshape=3", "-Dwrap=1"),
            R("h_ring", "-P2", "-Dshape=2"),
            R("h_ring", "-P2", "-Dshape=4"),
            R("h_ring", "-P1", "-Dshape=1", "-Dp2=2"),
            R("h_ring", "-P1", "-S1", "-Dshape=0"),
        ],
        "thorough": [
            R("h_ring", "-P3", "-Dshape=0"),
            R("h_ring", "-P3", "-Dshape=3", "-Dwrap=1"),
            R("h_ring", "-P3", "-Dshape=2"),
            R("h_ring", "-P2", "-Dshape=4", "-Dp2=2"),
            R("h_ring", "-P2", "-Dshape=1"),
            R("h_ring", "-P2", "-S1", "-Dshape=0"),
        ],
    },
    "C17": {
        "title": "work queue: one worker, exactly-once, none stranded",
        "level_text": "All schedules within the pre-emption bound of 2-3 threads pushing 1-3 items each into the real work_queue and draining when told to; the oracle orders START/EMPTY decisions by the instant of the deciding atomic operation on in_count (taken from the runtime's log of the real atomic operations) and checks worker alternation, exactly-once hand-out, EMPTY only when everything announced earlier was handed out, and nothing stranded at the end.",
        "quick": [
            R("h_workq", "-P2", "-Dshape=0"),
            R("h_workq", "-P2", "-Dshape=2"),
            R("h_workq", "-P1", "-Dshape=1"),
            R("h_workq", "-P1", "-S1", "-Dshape=0"),
        ],
        "thorough": [
            R("h_workq", "-P3", "-Dshape=2"),
            R("h_workq", "-P2", "-Dshape=0"),
            R("h_workq", "-P2", "-Dshape=1"),
            R("h_workq", "-P2", "-Dshape=3"),
            R("h_workq", "-P2", "-S1", "-Dshape=0"),
        ],
    },
    "C18": {
        "title": "spinlock: mutual exclusion, FIFO tickets, trylock never steals",
        "level_text": "All schedules within the pre-emption bound of 2-3 kernel threads doing lock/trylock/unlock on the real fiber_spinlock, including ticket counters preset to wrap around; the oracle replays the exact log of atomic operations the code performed on the lock word (tickets taken, CAS of trylock, unlock stores) against acquisition/release notes.",
        "quick": [
            R("h_spinlock", "-P3", "-Dshape=0"),
            R("h_spinlock", "-P3", "-Dshape=1"),
            R("h_spinlock", "-P3", "-Dshape=4", "-Dwrap=1"),
            R("h_spinlock", "-P3", "-Dshape=5"),
            R("h_spinlock", "-P1", "-Dshape=2"),
            R("h_spinlock", "-P1", "-Dshape=3", "-Dwrap=1"),
        ],
        "thorough": [
            R("h_spinlock", "-P6", "-Dshape=0"),
            R("h_spinlock", "-P6", "-Dshape=1", "-Dwrap=1"),
            R("h_spinlock", "-P5", "-Dshape=4"),
            R("h_spinlock", "-P6", "-Dshape=5", "-Dwrap=1"),
            R("h_spinlock", "-P2", "-Dshape=2"),
            R("h_spinlock", "-P2", "-Dshape=3", "-Dwrap=1"),
        ],
    },
}

# properties for which no check is claimed (kept current; reason per property)
NOT_APPLICABLE = {}
