// C06: fiber_semaphore under the real runtime.
// 2-3 fibers run scripts over {W wait, T trywait, P post}. Ghost counters are
// updated around the calls. Oracle at every successful wait/trywait:
//   waits_ok <= initial + posts_begun            (no over-admission)
// trywait never switches fibers (it never blocks). When every kernel thread
// has gone idle: value == initial + posts_done - waits_ok - blocked, and
// blocked > 0 implies no unit is available (no lost post).
#include "fiber_semaphore.h"
#include "rt_common.h"

static fiber_semaphore_t S;
static int initial, shape;
static int g_posts_begun, g_posts_done, g_waits_ok, g_waits_begun, g_finished, g_nf;

GHOST static void post_begin(void) { g_posts_begun++; }
GHOST static void post_end(void) { g_posts_done++; }
GHOST static void wait_begin(void) { g_waits_begun++; }
GHOST static void admitted(int id, int via_try) {
  g_waits_ok++;
  if (g_waits_ok > initial + g_posts_begun)
    fmc_fail("semaphore: over-admission: %d successful waits with initial=%d and %d posts begun (fiber %d, %s)", g_waits_ok, initial, g_posts_begun, id, via_try ? "trywait" : "wait");
  fmc_obs(id * 2 + via_try);
}
static int g_fin1;
GHOST static void fin(int id) { g_finished++; if (id == 1) g_fin1 = 1; }
GHOST static int fin1(void) { return g_fin1; }

static const char* scripts[][3] = {
    {"W", "P", ""},      // 0
    {"W", "W", "PP"},    // 1
    {"WP", "WP", ""},    // 2
    {"T", "P", "W"},     // 3
    {"WW", "P", ""},     // 4: one wait stays blocked when initial=0
    {"W", "PT", ""},     // 5
    {"W", "W", "P"},     // 6: one waiter stays blocked
    {"TW", "PP", ""},    // 7
    {"P", "W", "W"},     // 8: init=1: a post that races with a wait crossing zero and a second wait going negative
    {"P", "WW", ""},     // 9: the same with both waits in one fiber
    {"PP", "W", "W"},    // 10
    {"P", "W", "gW"},    // 11: as 8, the second waiter starts only after the first one got in ('g' = gate)
    {"P", "P", "gWW"},   // 12: init=0: a post losing its exchange to another post, then the counter goes negative
    {"T", "P", ""},      // 13: init=0: a failing trywait overlapping a post
    {"TT", "P", "W"},    // 14
};

// -Dgen=K: instead of one of the scripts above, EVERY program of `fibers` fibers (default 2) with
// at most K operations each over {W, T, P} is enumerated as an input (free choice points): the
// quantifier "any mix of wait/trywait/post" by program size rather than by hand-picked shapes
static char genbuf[3][8];
static const char* cur[3];

static void* body(void* p) {
  int id = (int)(intptr_t)p;
  for (const char* s = cur[id]; *s; s++) {
    if (*s == 'g') {
      // gate: this fiber goes on only after fiber 1 has finished its script. It polls with
      // fiber_yield (never an engine-level wait: a fiber that occupies its kernel thread would
      // keep the fibers queued behind it in that thread's private batch from ever running)
      while (!fin1()) fiber_yield();
    } else if (*s == 'W') {
      wait_begin();
      fiber_semaphore_wait(&S);
      admitted(id, 0);
    } else if (*s == 'T') {
      int t = fmc_tid();
      long sw = fmc_thread_switches(t);
      int ok = fiber_semaphore_trywait(&S) == FIBER_SUCCESS;
      if (fmc_tid() != t || fmc_thread_switches(t) != sw) fmc_fail("semaphore: trywait switched fibers (it must never block)");
      if (ok) admitted(id, 1);
    } else {
      post_begin();
      fiber_semaphore_post(&S);
      post_end();
    }
  }
  fin(id);
  return 0;
}

static int at_quiescence(void) {
  int blocked = g_waits_begun - (g_waits_ok - 0);
  // successful trywaits are in waits_ok but not in waits_begun: recount
  // blocked = wait calls that have not returned
  blocked = g_nf - g_finished;  // each unfinished fiber is blocked in exactly one wait
  int units = initial + g_posts_done - g_waits_ok;
  if (g_posts_begun != g_posts_done) fmc_fail("semaphore: a post never returned");
  if (units < 0) fmc_fail("semaphore: more successful waits (%d) than units (%d+%d)", g_waits_ok, initial, g_posts_done);
  if (blocked > 0 && units > 0)
    fmc_fail("semaphore: lost post: %d fiber(s) blocked in wait although %d unit(s) are available and no post is in progress", blocked, units);
  int v = fiber_semaphore_getvalue(&S);
  if (v != units - blocked) fmc_fail("semaphore: value is %d, expected initial+posts-successful waits-blocked = %d", v, units - blocked);
  fmc_obs(blocked * 16 + units);
  fmc_end();
  return 0;
}

int harness_main(void) {
  shape = fmc_param("shape", 0);
  initial = fmc_param("init", 0);
  rt_start();
  fiber_semaphore_init(&S, initial);
  fmc_focus(&S, sizeof S);
  rt_pin_begin();
  fmc_begin();
  int gen = fmc_param("gen", 0);
  if (gen) {
    int nfib = fmc_param("fibers", 2);
    for (int i = 0; i < 3; i++) cur[i] = genbuf[i];
    for (int i = 0; i < nfib; i++) {
      int len = 1 + fmc_input(gen);  // 1..K operations
      for (int k = 0; k < len; k++) genbuf[i][k] = "WTP"[fmc_input(3)];
    }
    g_nf = nfib;
  } else {
    for (int i = 0; i < 3; i++) cur[i] = scripts[shape][i];
    for (g_nf = 0; g_nf < 3 && scripts[shape][g_nf][0]; g_nf++) {}
  }
  int order[8];
  rt_creation_order(g_nf, order);
  for (int i = 0; i < g_nf; i++) fiber_detach(rt_create(order[i], STK, body, (void*)(intptr_t)order[i]));
  rt_pin_end();
  // -Dspread=1: the main fiber never switches fibers (engine-level yields only), so with N=3 the
  // fibers are all stolen and run by the two OTHER kernel threads from the first step on; no
  // pre-emption is spent on getting them onto different threads
  if (fmc_param("spread", 0)) {
    rt_quiescent_hook = at_quiescence;
    for (;;) fmc_yield();
  }
  rt_park_until_quiescent(at_quiescence);
  return 0;
}
