// C10: fiber_yield fairness on ONE kernel thread (no stealing to mask starvation).
// The quantifier is over programs: n fibers (main included, it polls with
// fiber_yield until the others are done), every vector of yield counts
// y_i in 0..Y enumerated as cost-free input choices, fibers created up front or
// each creating the next. Oracle: while a fiber is ready, the number of times
// OTHER fibers are run before it runs again is at most 2*n.
#include "fiber_cond.h"
#include "rt_common.h"

#define MAXF 700
static int nf, Y, chain;
static int g_ready[MAXF], g_bypass[MAXF], g_done[MAXF], g_maxbypass, g_runs;
static int ycount[MAXF];
static fiber_t* fib[MAXF];

GHOST static void mark_ready(int id) { g_ready[id] = 1; g_bypass[id] = 0; }
GHOST static void runs_now(int id) {
  g_runs++;
  g_ready[id] = 0;
  for (int j = 0; j < nf; j++) {
    if (j == id || !g_ready[j] || g_done[j]) continue;
    if (++g_bypass[j] > g_maxbypass) g_maxbypass = g_bypass[j];
    if (g_bypass[j] > 2 * nf)
      fmc_fail("yield fairness: ready fiber %d was bypassed %d times (bound 2*n=%d) while other fibers kept yielding; yields per fiber: %d %d %d %d",
               j, g_bypass[j], 2 * nf, ycount[0], ycount[1], ycount[2], ycount[3]);
  }
}
GHOST static void mark_done(int id) { g_done[id] = 1; g_ready[id] = 0; }
GHOST static int others_done(void) {
  for (int j = 1; j < nf; j++)
    if (!g_done[j]) return 0;
  return 1;
}

// -Dpp=R: fibers 1 and 2 do not yield at all: they hand a turn back and forth R times through a
// mutex + condition variable (the wake-up path of mutex/cond/rwlock/barrier), while the remaining
// fibers and main keep yielding. A yielding fiber is ready the whole time and must not be bypassed
// more than the bound either.
static int pp_rounds, pp_turn = 1;
static fiber_mutex_t ppm;
static fiber_cond_t ppc;
static void* pingpong(void* p) {
  int id = (int)(intptr_t)p;
  runs_now(id);
  for (int k = 0; k < pp_rounds; k++) {
    fiber_mutex_lock(&ppm);
    while (pp_turn != id) {
      fiber_cond_wait(&ppc, &ppm);
      runs_now(id);
    }
    pp_turn = 3 - id;
    fiber_cond_signal(&ppc);
    fiber_mutex_unlock(&ppm);
  }
  mark_done(id);
  return 0;
}

static void* body(void* p) {
  int id = (int)(intptr_t)p;
  runs_now(id);
  if (chain && id + 1 < nf) {
    mark_ready(id + 1);
    fib[id + 1] = fiber_create(STK, body, (void*)(intptr_t)(id + 1));
  }
  for (int k = 0; k < ycount[id]; k++) {
    mark_ready(id);
    fiber_yield();
    runs_now(id);
  }
  mark_done(id);
  return 0;
}

// -Dmt=1 (N=2): the polled-for fiber X is woken out of a mutex wait queue by the poller while it
// may still be in the middle of switching out on the OTHER kernel thread, and that thread is then
// kept busy by a fiber that does not yield (so nobody can steal X): the poller's own
// fiber_yield calls must get X run - "yield-based polling loops cannot starve the very fiber
// they wait for" with N kernel threads.
static fiber_mutex_t mtm;
static int g_xstarted, g_xdone;
GHOST static void xstarted(void) { g_xstarted = 1; }
GHOST static int is_xstarted(void) { return g_xstarted; }
GHOST static void xdone(void) { g_xdone = 1; }
GHOST static int is_xdone(void) { return g_xdone; }
static void* mt_x(void* p) {
  xstarted();
  fiber_mutex_lock(&mtm);
  fiber_mutex_unlock(&mtm);
  xdone();
  return 0;
}
static void* mt_busy(void* p) {
  // occupies kernel thread 1 without ever yielding to another fiber; on thread 0 it would sit on
  // top of the poller's own run queue, so there it just ends
  if (fmc_tid() == 1)
    while (!is_xdone()) fmc_yield();
  return 0;
}
static int mt_main(void) {
  fiber_mutex_init(&mtm);
  rt_start();
  fmc_begin();
  fiber_mutex_lock(&mtm);
  fiber_t* x = fiber_create(STK, mt_x, 0);
  fiber_t* b = fiber_create(STK, mt_busy, 0);
  while (!is_xstarted()) fmc_yield();  // the other kernel thread steals X (main never switched so far)
  fiber_mutex_unlock(&mtm);            // wakes X if it already queued up - possibly mid-switch
  int polls = 0;
  while (!is_xdone()) {
    fiber_yield();
    if (++polls > 300)
      fmc_fail("yield fairness (2 kernel threads): the poller called fiber_yield %d times and the fiber it woke (ready in its own run queue, the other thread busy) still has not run", polls);
  }
  fiber_join(x, 0);
  fiber_join(b, 0);
  fmc_obs(polls > 8 ? 8 : polls);
  rt_finish();
  return 0;
}

int harness_main(void) {
  if (fmc_param("mt", 0)) return mt_main();
  nf = fmc_param("n", 3);
  Y = fmc_param("Y", 6);
  chain = fmc_param("chain", 0);
  pp_rounds = fmc_param("pp", 0);
  fiber_mutex_init(&ppm);
  fiber_cond_init(&ppc);
  rt_start();
  fmc_begin();
  // -Dfixed=1: many fibers, every one yields Y times (thresholds that depend on the NUMBER of
  // ready fibers); otherwise every vector of yield counts in 0..Y is enumerated as an input
  if (fmc_param("fixed", 0))
    for (int i = 1; i < nf; i++) ycount[i] = Y;
  else
    for (int i = 1; i < nf; i++) ycount[i] = fmc_input(Y + 1);
  int first = chain ? 2 : nf;
  for (int i = 1; i < first; i++) {
    mark_ready(i);
    fib[i] = fiber_create(STK, (pp_rounds && i <= 2) ? pingpong : body, (void*)(intptr_t)i);
  }
  // main (fiber 0) polls with yield: exactly the loop the property talks about
  int polls = 0;
  while (!others_done()) {
    mark_ready(0);
    fiber_yield();
    runs_now(0);
    if (++polls > 400 + 20 * nf) fmc_fail("yield fairness: main polled very many times and the other fibers still have not finished");
  }
  for (int i = 1; i < nf; i++) fiber_join(fib[i], 0);
  fmc_obs(g_maxbypass);
  fmc_obs(g_runs);
  rt_finish();
  return 0;
}
