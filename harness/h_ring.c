// C16: lockfree_ring_buffer under raw threads (capacity 2 or 4, optional index wrap-around).
// Oracle: the call/return history must linearize against a bounded FIFO of the
// configured capacity in which trypush/trypop may additionally fail when some
// other operation on the buffer overlapped the call. This subsumes: never more
// than capacity items, no overwrite of an unread slot (an overwritten item is a
// missing one), every pushed item popped exactly once in push-effect order.
#include "lockfree_ring_buffer.h"
#include "raw_common.h"

enum { OP_PUSH = 1, OP_POP = 2 };
static lockfree_ring_buffer_t* rb;
static int shape, cap;

typedef struct { uint8_t n, cap; uint8_t v[8]; } rstate_t;

static int spec(void* st_, const fmc_op_t* op, int ret_known) {
  rstate_t* st = st_;
  int overlapped = (int)(op->arg >> 16);
  int val = (int)(op->arg & 0xffff);
  if (op->kind == OP_PUSH) {
    if (!ret_known || op->ret) {
      if (st->n >= st->cap) return 0;
      st->v[st->n++] = (uint8_t)val;
      return 1;
    }
    return overlapped || st->n == st->cap || fmc_tso_mode();  // TSO: a completed op may not be visible yet
  }
  if (!ret_known) return 1;
  if (op->ret == 0) return overlapped || st->n == 0 || fmc_tso_mode();
  if (!st->n || st->v[0] != op->ret) return 0;
  memmove(st->v, st->v + 1, 7);
  st->n--;
  return 1;
}

static const char* scripts[][3] = {
    {"PPP", "ooPo", ""},   // 0
    {"PP", "Po", "oo"},    // 1
    {"PoP", "oPo", ""},    // 2
    {"PPPP", "oooo", ""},  // 3: slot reuse with capacity 2
    {"PP", "PP", "ooo"},   // 4: two pushers racing for the same slot
    {"Po", "o", "Po"},     // 5: a popper stalled before clearing its slot + a popper holding a stale `high` + a third party
    {"Po", "oo", "PoP"},   // 6
    {"PoP", "o", "oP"},    // 7
};

static void* body(void* p) {
  int t = (int)(intptr_t)p;
  int seq = 0;
  for (const char* s = scripts[shape][t - 1]; *s; s++) {
    if (*s == 'P') {
      int val = t * 10 + (++seq);
      int op = fmc_op_begin(OP_PUSH, val);
      int r = lockfree_ring_buffer_trypush(rb, (void*)(intptr_t)val);
      fmc_op_end(op, r);
    } else {
      int op = fmc_op_begin(OP_POP, 0);
      void* r = lockfree_ring_buffer_trypop(rb);
      fmc_op_end(op, (intptr_t)r);
    }
  }
  raw_set_done(t);
  return 0;
}

GHOST static void check(void) {
  fmc_op_t* o = fmc_ops();
  int n = fmc_nops();
  for (int i = 0; i < n; i++) {
    int ov = 0;
    for (int j = 0; j < n; j++)
      if (j != i && o[j].inv < o[i].resp && (!o[j].resp || o[i].inv < o[j].resp)) ov = 1;
    o[i].arg = (o[i].arg & 0xffff) | ((intptr_t)ov << 16);
  }
  rstate_t init;
  memset(&init, 0, sizeof init);
  init.cap = cap;
  if (!fmc_linearizable(spec, &init, sizeof init)) {
    char h[500];
    fmc_history_dump(h, sizeof h);
    fmc_fail("ring buffer: history is not a legal bounded-FIFO history (item lost/duplicated/overwritten/mis-ordered, capacity exceeded, or failure without cause): %s", h);
  }
  fmc_history_obs();
}

int harness_main(void) {
  shape = fmc_param("shape", 0);
  int p2 = fmc_param("p2", 1);
  cap = 1 << p2;
  rb = lockfree_ring_buffer_create(p2);
  if (fmc_param("wrap", 0)) {
    // counters cross 2^32 during the run (catches 32-bit truncation). Overflow of the
    // 64-bit counters themselves needs 2^64 operations and is not a reachable state.
    rb->high = 0xFFFFFFFFull;
    rb->low = 0xFFFFFFFFull;
  }
  raw_run(scripts[shape][2][0] ? 3 : 2, body);
  for (int i = 0; i < cap + 1; i++) {
    int op = fmc_op_begin(OP_POP, 0);
    void* r = lockfree_ring_buffer_trypop(rb);
    fmc_op_end(op, (intptr_t)r);
  }
  check();
  if (lockfree_ring_buffer_size(rb) != 0) fmc_fail("ring buffer: size %zu after draining", lockfree_ring_buffer_size(rb));
  fmc_end();
}
