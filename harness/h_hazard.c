// C14 (a): the hazard-pointer protocol itself under raw threads.
//   readers : p = shared; using(p); if (p == shared) { PROTECTED: read p->payload } done_using
//   writer  : swap a fresh node into `shared`, retire the old one, scan
//   joiner  : (shape 1) registers a new record while scans may be running, then reads
// Oracle: the reclamation callback must never receive a node that some thread
// holds under a published-and-validated hazard pointer (ghost protected set);
// a protected read must see the live payload (heap shadow + poison check);
// the scan's scratch array must not overflow (heap red zones).
#include "hazard_pointer.h"
#include "raw_common.h"

typedef struct node {
  hazard_node_t hazard;
  uint64_t payload;
} node_t;

static _Atomic(hazard_pointer_thread_record_t*) hp_head;
static hazard_pointer_thread_record_t* rec[4];
static _Atomic(node_t*) shared;
static int shape, nswaps, nreads;
static node_t* g_protected[4];
static int g_reclaimed, g_protreads;

GHOST static void protect(int t, node_t* n) { g_protected[t] = n; }
GHOST static void unprotect(int t) { g_protected[t] = 0; g_protreads++; }
GHOST static void reclaim_check(hazard_node_t* h) {
  for (int t = 0; t < 4; t++)
    if (g_protected[t] == (node_t*)h) fmc_fail("hazard pointers: node reclaimed while T%d holds a published and validated hazard pointer to it", t);
  g_reclaimed++;
}
static void gc(void* d, hazard_node_t* h) {
  reclaim_check(h);
  free(h);
}

static node_t* mk(uint64_t v) {
  node_t* n = malloc(sizeof *n);
  n->hazard.gc_data = 0;
  n->hazard.gc_function = gc;
  n->payload = v;
  return n;
}

static void reader(int t, hazard_pointer_thread_record_t* r) {
  for (int i = 0; i < nreads; i++) {
    node_t* p = atomic_load_explicit(&shared, memory_order_acquire);
    hazard_pointer_using(r, &p->hazard, 0);
    if (p == atomic_load_explicit(&shared, memory_order_acquire)) {
      protect(t, p);
      uint64_t v = p->payload;
      if ((v >> 8) != 0xABCDEF) fmc_fail("hazard pointers: protected read returned garbage %lx (node reclaimed under the reader)", (unsigned long)v);
      unprotect(t);
    }
    hazard_pointer_done_using(r, 0);
  }
}

static void* body(void* p) {
  int t = (int)(intptr_t)p;
  if (t == 1) {
    for (int i = 0; i < nswaps; i++) {
      node_t* n = mk(0xABCDEF00 | (i + 1));
      node_t* old = atomic_exchange(&shared, n);
      hazard_pointer_free(rec[1], &old->hazard);
      if (rec[1]->retired_count) hazard_pointer_scan(rec[1]);
    }
  } else if (t == 2) {
    reader(t, rec[2]);
  } else {
    if (shape == 1) rec[3] = hazard_pointer_thread_record_create_and_push(&hp_head, 1);
    reader(t, rec[3]);
  }
  raw_set_done(t);
  return 0;
}

int harness_main(void) {
  shape = fmc_param("shape", 0);  // 0: writer + 2 readers (3 records up front)  1: third record joins mid-run  2: writer + 1 reader
  nswaps = fmc_param("swaps", 2);
  nreads = fmc_param("reads", 2);
  int nt = shape == 2 ? 2 : 3;
  int upfront = shape == 1 ? 2 : nt;
  for (int i = 1; i <= upfront; i++) rec[i] = hazard_pointer_thread_record_create_and_push(&hp_head, 1);
  rec[1]->retire_threshold = fmc_param("threshold", 1);  // not the list head unless it is alone: see h_mpmc.c
  if (upfront == 1) rec[1]->retire_threshold = 2;
  shared = mk(0xABCDEF00);
  raw_run(nt, body);
  // final scan with nobody protecting anything: everything retired must go
  hazard_pointer_scan(rec[1]);
  if (rec[1]->retired_count != 0) fmc_fail("hazard pointers: %zu retired nodes survive a scan although nothing is protected", rec[1]->retired_count);
  if (g_reclaimed != nswaps) fmc_fail("hazard pointers: %d nodes retired but %d reclaimed", nswaps, g_reclaimed);
  fmc_obs(g_protreads);
  fmc_end();
}
