// C20 (raw part): the double-word-CAS structures under raw threads.
//   s=0 mpmc_lifo   : pops with immediate re-push of popped nodes (the ABA shape)
//   s=1 dist_fifo   : one distinguished pusher, two poppers, popped nodes recycled by the pusher
//   s=2 mpmc_stack  : pushers and a flusher
// Nodes are never freed during a run (the library documents that popped nodes
// stay readable); reuse is by re-push. Oracle: linearizability of the history
// with node identities against a stack / FIFO queue / flushable stack; every
// node handed to exactly one taker.
#include "dist_fifo.h"
#include "mpmc_lifo.h"
#include "mpmc_stack.h"
#include "raw_common.h"

enum { OP_PUSH = 1, OP_POP = 2, OP_FLUSH = 3 };
#define R_RETRY (-1)
static int s_kind, shape;
static mpmc_lifo_t lifo __attribute__((aligned(16)));
static dist_fifo_t dfifo __attribute__((aligned(16)));
static mpmc_stack_t mstack;

typedef struct { uint8_t n; uint8_t v[10]; } st_t;

static int spec(void* st_, const fmc_op_t* op, int ret_known) {
  st_t* st = st_;
  if (op->kind == OP_PUSH) {
    if (st->n >= 10) return 0;
    st->v[st->n++] = (uint8_t)(op->arg & 0xff);
    return 1;
  }
  if (!ret_known) return 1;
  if (op->kind == OP_FLUSH) {  // returns the whole content, newest first, as base-16 digits
    intptr_t r = 0;
    for (int i = st->n - 1; i >= 0; i--) r = r * 16 + st->v[i];
    if (r != op->ret) return 0;
    st->n = 0;
    return 1;
  }
  if (op->ret == R_RETRY) return (op->arg >> 8) & 1;  // only if another pop overlapped
  if (op->ret == 0) return st->n == 0 || ((op->arg >> 9) & 1) || fmc_tso_mode();
  if (!st->n) return 0;
  if (s_kind == 0) {  // stack
    if (st->v[st->n - 1] != op->ret) return 0;
    st->n--;
  } else {  // queue
    if (st->v[0] != op->ret) return 0;
    memmove(st->v, st->v + 1, 9);
    st->n--;
  }
  return 1;
}

// ---- lifo ----
static mpmc_lifo_node_t lnodes[10];
static void lifo_push_id(int id) {
  lnodes[id].data = (void*)(intptr_t)id;
  int op = fmc_op_begin(OP_PUSH, id);
  mpmc_lifo_push(&lifo, &lnodes[id]);
  fmc_op_end(op, 0);
}
static int lifo_pop_id(void) {
  int op = fmc_op_begin(OP_POP, 0);
  mpmc_lifo_node_t* n = mpmc_lifo_pop(&lifo);
  int id = n ? (int)(n - lnodes) : 0;
  fmc_op_end(op, id);
  return id;
}
static const char* lifo_scripts[][3] = {
    {"o", "oor", ""},     // 0: classic ABA: T1's stale snapshot vs pop,pop,re-push
    {"or", "or", ""},     // 1
    {"o", "oor", "P"},    // 2
    {"oro", "oPr", ""},   // 3
    {"orr", "oor", ""},   // 4
};

// ---- dist fifo ----
static dist_fifo_node_t dnodes[12];
static int d_free[12], d_nfree;  // nodes handed back by poppers (ghost handoff)
extern void fmc_fence(void);
GHOST static void d_give(int idx) { d_free[d_nfree++] = idx; }
GHOST static int d_take(void) { return d_nfree ? d_free[--d_nfree] : -1; }
static int d_nextid = 1;
static void dist_push_node(int nodeidx, int id) {
  dnodes[nodeidx].data = (void*)(intptr_t)id;
  int op = fmc_op_begin(OP_PUSH, id);
  dist_fifo_push(&dfifo, &dnodes[nodeidx]);
  fmc_op_end(op, 0);
}
static void dist_pop(void) {
  int op = fmc_op_begin(OP_POP, 0);
  dist_fifo_node_t* n = dist_fifo_trypop(&dfifo);
  intptr_t r = 0;
  if (n == DIST_FIFO_RETRY) r = R_RETRY;
  else if (n != DIST_FIFO_EMPTY) {
    r = (intptr_t)n->data;
    if (n >= dnodes && n < dnodes + 12) { fmc_fence(); d_give((int)(n - dnodes)); }  // a real hand-over drains the store buffer first (see h_queues.c)
  }
  fmc_op_end(op, r);
}
static const char* dist_scripts[][3] = {
    {"PPP", "oo", "oo"},   // 0
    {"PPR", "oo", "oo"},   // 1: third push recycles a popped node when one is available
    {"PP", "ooo", ""},     // 2
    {"PRR", "oo", "o"},    // 3
};

// ---- mpmc stack ----
static mpmc_stack_node_t snodes[10];
static void stack_push_id(int id) {
  mpmc_stack_node_init(&snodes[id], (void*)(intptr_t)id);
  int op = fmc_op_begin(OP_PUSH, id);
  mpmc_stack_push(&mstack, &snodes[id]);
  fmc_op_end(op, 0);
}
static void stack_flush(int fifo_order) {
  int op = fmc_op_begin(OP_FLUSH, 0);
  mpmc_stack_node_t* h = fifo_order ? mpmc_stack_fifo_flush(&mstack) : mpmc_stack_lifo_flush(&mstack);
  intptr_t r = 0;
  int cnt = 0, ids[10];
  for (; h && cnt < 10; h = h->next) ids[cnt++] = (int)(intptr_t)mpmc_stack_node_get_data(h);
  if (fifo_order)
    for (int i = cnt - 1; i >= 0; i--) r = r * 16 + ids[i];  // oldest first -> report newest first
  else
    for (int i = 0; i < cnt; i++) r = r * 16 + ids[i];
  fmc_op_end(op, r);
}
static const char* stack_scripts[][3] = {
    {"PP", "PP", "ff"},  // 0
    {"PP", "fPf", ""},   // 1
    {"P", "P", "fF"},    // 2: F = fifo flush
};

static void* body(void* p) {
  int t = (int)(intptr_t)p;
  int held[4], nheld = 0, seq = 0;
  const char* s = s_kind == 0 ? lifo_scripts[shape][t - 1] : s_kind == 1 ? dist_scripts[shape][t - 1] : stack_scripts[shape][t - 1];
  for (; *s; s++) {
    if (s_kind == 0) {
      if (*s == 'o') { int id = lifo_pop_id(); if (id) held[nheld++] = id; }
      else if (*s == 'r') { if (nheld) { int id = held[0]; memmove(held, held + 1, sizeof(int) * 3); nheld--; lifo_push_id(id); } }
      else lifo_push_id(4 + t);
    } else if (s_kind == 1) {
      if (*s == 'o') dist_pop();
      else if (*s == 'P') { int id = d_nextid++; dist_push_node(id, id); }
      else { int idx = d_take(); int id = d_nextid++; dist_push_node(idx >= 0 ? idx : id, id); }
    } else {
      if (*s == 'P') stack_push_id(t * 3 + (++seq) - 3);
      else stack_flush(*s == 'F');
    }
  }
  raw_set_done(t);
  return 0;
}

GHOST static void check(void) {
  fmc_op_t* o = fmc_ops();
  int n = fmc_nops();
  for (int i = 0; i < n; i++) {
    if (o[i].kind != OP_POP) continue;
    int ovpop = 0, ovpush = 0;
    for (int j = 0; j < n; j++) {
      if (j == i || !(o[j].inv < o[i].resp && (!o[j].resp || o[i].inv < o[j].resp))) continue;
      if (o[j].kind == OP_POP) ovpop = 1;
      if (o[j].kind == OP_PUSH) ovpush = 1;
    }
    o[i].arg = (ovpop << 8) | (ovpush << 9);
  }
  st_t init;
  memset(&init, 0, sizeof init);
  if (!fmc_linearizable(spec, &init, sizeof init)) {
    char h[500];
    fmc_history_dump(h, sizeof h);
    fmc_fail("%s: history is not linearizable (a node handed to two takers, lost, or out of order): %s",
             s_kind == 0 ? "mpmc_lifo" : s_kind == 1 ? "dist_fifo" : "mpmc_stack", h);
  }
  fmc_history_obs();
}

int harness_main(void) {
  s_kind = fmc_param("s", 0);
  shape = fmc_param("shape", 0);
  int nt;
  if (s_kind == 0) {
    mpmc_lifo_init(&lifo);
    lifo_push_id(2);  // B
    lifo_push_id(1);  // A on top
    nt = lifo_scripts[shape][2][0] ? 3 : 2;
  } else if (s_kind == 1) {
    dist_fifo_init(&dfifo);
    nt = dist_scripts[shape][2][0] ? 3 : 2;
  } else {
    mpmc_stack_init(&mstack);
    nt = stack_scripts[shape][2][0] ? 3 : 2;
  }
  raw_run(nt, body);
  // drain
  if (s_kind == 0) { for (int i = 0; i < 6; i++) if (!lifo_pop_id()) break; }
  else if (s_kind == 1) { for (int i = 0; i < 6; i++) dist_pop(); }
  else stack_flush(0);
  check();
  fmc_end();
}
