// C18: fiber_spinlock under 2-3 raw kernel threads.
// Oracle (computed from the exact log of atomic operations the real code
// performed on the lock word plus harness notes):
//   * mutual exclusion (acquire/release notes alternate),
//   * FIFO: the k-th acquisition holds ticket base+k; a lock() caller's ticket
//     is the value its fetch_add on `users` returned,
//   * trylock never spins (no cpu_relax inside), and succeeds only when at its
//     CAS nobody holds the lock and nobody has taken a ticket and is waiting.
#include <pthread.h>
#include <string.h>

#include "fiber_manager.h"
#include "fiber_spinlock.h"
#include "fmc.h"

static fiber_spinlock_t lock;
static fiber_manager_t fake_mgr[4];
fiber_manager_t* __wrap_fiber_manager_get(void) { return &fake_mgr[fmc_tid()]; }

static int nthreads, shape;
static volatile int shared_counter;  // plain variable protected by the lock
static int g_holder = -1, g_done[4], g_acq, g_spins_in_try;
static int in_try[4];

enum { N_ACQ = 1, N_REL = 2, N_TRYFAIL = 3, N_TRYBEGIN = 4, N_LOCKBEGIN = 5 };

GHOST static void note_acquired(int t, int by_try) {
  if (g_holder != -1) fmc_fail("spinlock: T%d acquired (%s) while T%d holds the lock", t, by_try ? "trylock" : "lock", g_holder);
  g_holder = t;
  g_acq++;
  fmc_watch_note(N_ACQ, by_try);
}
GHOST static void note_release(int t) {
  if (g_holder != t) fmc_fail("spinlock: release by non-holder");
  g_holder = -1;
  fmc_watch_note(N_REL, 0);
}
GHOST static void note(int code) { fmc_watch_note(code, 0); }
GHOST static void set_done(int t) { g_done[t] = 1; }
GHOST static int all_done(void) {
  for (int i = 1; i <= nthreads; i++)
    if (!g_done[i]) return 0;
  return 1;
}
GHOST static void set_in_try(int t, int v) { in_try[t] = v; }

// script per thread: 'L' lock+cs+unlock, 'T' trylock (+cs+unlock when it succeeds)
static const char* scripts[][3] = {
    {"LL", "L", ""},    // 0: two threads, re-acquisition
    {"L", "T", ""},     // 1: lock vs trylock
    {"L", "L", "L"},    // 2: three contenders
    {"L", "L", "T"},    // 3: trylock while others queue
    {"TL", "LT", ""},   // 4: mixed
    {"T", "T", ""},     // 5: two trylocks
};

static void* body(void* p) {
  int t = (int)(intptr_t)p;
  const char* s = scripts[shape][t - 1];
  for (; *s; s++) {
    if (*s == 'L') {
      note(N_LOCKBEGIN);
      fiber_spinlock_lock(&lock);
      note_acquired(t, 0);
      shared_counter = shared_counter + 1;
      note_release(t);
      fiber_spinlock_unlock(&lock);
    } else {
      note(N_TRYBEGIN);
      set_in_try(t, 1);
      int ok = fiber_spinlock_trylock(&lock);
      set_in_try(t, 0);
      if (ok) {
        note_acquired(t, 1);
        shared_counter = shared_counter + 1;
        note_release(t);
        fiber_spinlock_unlock(&lock);
      } else {
        note(N_TRYFAIL);
      }
    }
  }
  set_done(t);
  return 0;
}

// the hook in cpu_relax() reaches the engine; count spins that happen inside trylock
GHOST static void check_log(uint32_t base) {
  fmc_wev_t* l = fmc_watch_log();
  int n = fmc_watch_n();
  // per-thread pending ticket (taken, not yet acquired)
  int64_t ticket_of[4] = {-1, -1, -1, -1};
  int waiting = 0;
  uint32_t next_ticket = base;  // ticket the next acquisition must hold
  int holder = -1;
  int64_t try_ticket[4] = {-1, -1, -1, -1};
  for (int i = 0; i < n; i++) {
    fmc_wev_t* e = &l[i];
    int t = e->thread;
    if (e->kind == 'A' && e->off == 4) {  // fetch_add on users
      ticket_of[t] = (uint32_t)e->oldv;
      waiting++;
    } else if (e->kind == 'C' && e->size == 8) {  // successful trylock CAS on the blob
      uint32_t tk = (uint32_t)e->oldv, us = (uint32_t)(e->oldv >> 32);
      if (tk != us) fmc_fail("spinlock: trylock succeeded although ticket=%u users=%u (held or contenders queued)", tk, us);
      if (holder != -1) fmc_fail("spinlock: trylock CAS succeeded while T%d holds the lock", holder);
      if (waiting) fmc_fail("spinlock: trylock succeeded while %d contender(s) hold a ticket and wait", waiting);
      try_ticket[t] = us;
    } else if (e->kind == 'N' && e->off == N_ACQ) {
      int64_t mine = e->oldv ? try_ticket[t] : ticket_of[t];
      if (mine < 0) fmc_fail("spinlock: T%d acquired without taking a ticket", t);
      if ((uint32_t)mine != next_ticket) fmc_fail("spinlock: FIFO order broken: T%d acquired with ticket %u but ticket %u was next", t, (uint32_t)mine, next_ticket);
      next_ticket++;
      if (!e->oldv) { ticket_of[t] = -1; waiting--; } else try_ticket[t] = -1;
      holder = t;
    } else if (e->kind == 'N' && e->off == N_REL) {
      holder = -1;
    }
  }
}

void __real_fmc_spin_hint(void);
void __wrap_fmc_spin_hint(void) {
  if (in_try[fmc_tid()]) g_spins_in_try++;
  __real_fmc_spin_hint();
}

int harness_main(void) {
  shape = fmc_param("shape", 0);
  int wrap = fmc_param("wrap", 0);
  nthreads = scripts[shape][2][0] ? 3 : 2;
  fiber_spinlock_init(&lock);
  uint32_t base = 0;
  if (wrap) {
    base = 0xFFFFFFFFu;  // next ticket wraps to 0
    lock.state.counters.ticket = base;
    lock.state.counters.users = base;
  }
  fmc_watch(&lock);
  pthread_t th[3];
  for (int i = 1; i <= nthreads; i++) pthread_create(&th[i - 1], 0, body, (void*)(intptr_t)i);
  fmc_begin();
  fmc_wait_threads();
  int expect = 0;
  check_log(base);
  if (g_spins_in_try) fmc_fail("spinlock: trylock waited (%d spins inside trylock)", g_spins_in_try);
  if (shared_counter != g_acq) fmc_fail("spinlock: lost update in critical section: counter=%d acquisitions=%d", shared_counter, g_acq);
  (void)expect;
  fmc_obs(g_acq);
  fmc_wev_t* l = fmc_watch_log();
  for (int i = 0; i < fmc_watch_n(); i++)
    if (l[i].kind == 'N') fmc_obs(l[i].thread * 16 + l[i].off);
  fmc_end();
}
