// C08: the descriptor shims of fiber_io.c on real AF_UNIX sockets and pipes inside the
// runtime (every descriptor syscall is a scheduling point; max_fd is 64).
//  sc=1 invalid descriptors x entry points, differential against the raw syscall
//  sc=2 blocking-mode matrix: {default, O_NONBLOCK, FIONBIO on, FIONBIO on->off, MSG_DONTWAIT}
//       x {read/recv on empty, write/send on full, accept with nothing pending}
//  sc=3 transfer scripts against a byte-queue reference model
//  sc=4 two readers on one socket      sc=5 reader and writer blocked on the same descriptor
//  sc=6 two acceptors, two connections sc=7 reader blocked while another fiber closes the descriptor
//  sc=8 a descriptor number is reused by another fiber while close() of the old one is still in progress
//  sc=9 pipe: reader blocked on an empty pipe whose last writer goes away (readiness = hang-up only) -> 0
//  sc=10 pipe: writer blocked on a full pipe whose last reader goes away (readiness = error only) -> EPIPE
#include <errno.h>
#include <signal.h>
#include <fcntl.h>
#include <limits.h>
#include <sys/ioctl.h>
#include <sys/socket.h>
#include <sys/syscall.h>
#include <sys/uio.h>
#include <sys/un.h>
#include <unistd.h>

#include "rt_common.h"

static int sc;
static int g_ticks_seen, g_stop_ticker;
GHOST static void tick_seen(void) { g_ticks_seen++; }
GHOST static int ticks_seen(void) { return g_ticks_seen; }
GHOST static int stop_ticker(void) { return g_stop_ticker; }
GHOST static void set_stop(void) { g_stop_ticker = 1; }

static void* ticker(void* p) {
  int n = 0;
  while (!stop_ticker() && n++ < 10000) {
    tick_seen();
    rt_force_balance();
    fiber_yield();
  }
  return 0;
}

// ---------------------------------------------------------------- sc=1
static const int badfds[] = {-1, INT_MIN, -2 /*closed, patched*/, 63, 64, 65, 1000, INT_MAX};
static const char* callname[] = {"read", "readv", "recv", "recvfrom", "recvmsg", "write", "writev", "send", "sendto", "sendmsg",
                                 "accept", "connect", "close", "fcntl(F_SETFL,O_NONBLOCK)", "fcntl(F_GETFD)", "ioctl(FIONBIO)", "ioctl(FIONREAD)"};
static long do_call(int which, int fd, int raw) {
  char buf[8] = "abc";
  struct iovec iov = {buf, 4};
  struct msghdr mh = {0};
  mh.msg_iov = &iov;
  mh.msg_iovlen = 1;
  struct sockaddr_un sa = {AF_UNIX, "/nonexistent/x"};
  socklen_t sl = sizeof sa;
  int on = 1, cnt = 0;
  rt_set_errno(0);
  switch (which) {
    case 0: return raw ? syscall(SYS_read, fd, buf, 4) : read(fd, buf, 4);
    case 1: return raw ? syscall(SYS_readv, fd, &iov, 1) : readv(fd, &iov, 1);
    case 2: return raw ? syscall(SYS_recvfrom, fd, buf, 4, 0, 0, 0) : recv(fd, buf, 4, 0);
    case 3: return raw ? syscall(SYS_recvfrom, fd, buf, 4, 0, &sa, &sl) : recvfrom(fd, buf, 4, 0, (struct sockaddr*)&sa, &sl);
    case 4: return raw ? syscall(SYS_recvmsg, fd, &mh, 0) : recvmsg(fd, &mh, 0);
    case 5: return raw ? syscall(SYS_write, fd, buf, 4) : write(fd, buf, 4);
    case 6: return raw ? syscall(SYS_writev, fd, &iov, 1) : writev(fd, &iov, 1);
    case 7: return raw ? syscall(SYS_sendto, fd, buf, 4, 0, 0, 0) : send(fd, buf, 4, 0);
    case 8: return raw ? syscall(SYS_sendto, fd, buf, 4, 0, &sa, sl) : sendto(fd, buf, 4, 0, (struct sockaddr*)&sa, sl);
    case 9: return raw ? syscall(SYS_sendmsg, fd, &mh, 0) : sendmsg(fd, &mh, 0);
    case 10: return raw ? syscall(SYS_accept, fd, 0, 0) : accept(fd, 0, 0);
    case 11: return raw ? syscall(SYS_connect, fd, &sa, sl) : connect(fd, (struct sockaddr*)&sa, sl);
    case 12: return raw ? syscall(SYS_close, fd) : close(fd);
    case 13: return raw ? syscall(SYS_fcntl, fd, F_SETFL, O_NONBLOCK) : fcntl(fd, F_SETFL, O_NONBLOCK);
    case 14: return raw ? syscall(SYS_fcntl, fd, F_GETFD, 0) : fcntl(fd, F_GETFD);
    case 15: return raw ? syscall(SYS_ioctl, fd, FIONBIO, &on) : ioctl(fd, FIONBIO, &on);
    default: return raw ? syscall(SYS_ioctl, fd, FIONREAD, &cnt) : ioctl(fd, FIONREAD, &cnt);
  }
}
static void grid1(void) {
  int fi = fmc_input(8);
  int g = fmc_input(2);
  int ci = g * 9 + fmc_input(g ? 8 : 9);
  int fd = badfds[fi];
  if (fi == 2) {
    int sv[2];
    if (socketpair(AF_UNIX, SOCK_STREAM, 0, sv)) fmc_fail("io harness: socketpair failed");
    fd = sv[0];
    close(sv[0]);
  }
  long want = do_call(ci, fd, 1);
  int want_errno = rt_errno();
  long got = do_call(ci, fd, 0);
  int got_errno = rt_errno();
  if (want >= 0) return;  // the raw call itself accepts this (cannot happen for these descriptors)
  if (got >= 0) fmc_fail("io: %s on invalid descriptor %d returned %ld (success); the plain call fails with errno %d", callname[ci], fd, got, want_errno);
  if (got_errno != want_errno) fmc_fail("io: %s on invalid descriptor %d failed with errno %d; the plain call fails with errno %d", callname[ci], fd, got_errno, want_errno);
  fmc_obs(fi * 32 + ci);
}

// ---------------------------------------------------------------- helpers
static void mk_pair(int sv[2]) {
  if (socketpair(AF_UNIX, SOCK_STREAM, 0, sv)) fmc_fail("io harness: socketpair failed");
}
static void fill_send_buffer(int fd) {
  int sz = 4608;
  setsockopt(fd, SOL_SOCKET, SO_SNDBUF, &sz, sizeof sz);
  char junk[1024];
  memset(junk, 'j', sizeof junk);
  for (int i = 0; i < 10000; i++)
    if (syscall(SYS_sendto, fd, junk, sizeof junk, MSG_DONTWAIT, 0, 0) < 0) return;
  fmc_fail("io harness: could not fill the send buffer");
}
static void drain_raw(int fd) {
  char junk[4096];
  while (syscall(SYS_recvfrom, fd, junk, sizeof junk, MSG_DONTWAIT, 0, 0) > 0) {}
}

// ---------------------------------------------------------------- sc=2
static int m_mode, m_op, m_sv[2], m_listen = -1, m_result_ready;
static long m_ret;
static int m_errno, m_t0, m_sw0, m_switched;
GHOST static void set_result(long r, int e, int switched) { m_ret = r; m_errno = e; m_switched = switched; m_result_ready = 1; }
GHOST static int result_ready(void) { return m_result_ready; }

static void set_mode(int fd, int mode) {
  int on = 1, off = 0;
  if (mode == 1 && fcntl(fd, F_SETFL, O_NONBLOCK)) fmc_fail("io: fcntl(F_SETFL,O_NONBLOCK) failed on a valid socket");
  if (mode == 2 && ioctl(fd, FIONBIO, &on)) fmc_fail("io: ioctl(FIONBIO,1) failed on a valid socket");
  if (mode == 3 && (ioctl(fd, FIONBIO, &on) || ioctl(fd, FIONBIO, &off))) fmc_fail("io: ioctl(FIONBIO) failed on a valid socket");
}
static void* m_caller(void* p) {
  char buf[16] = "0123456789";
  int flags = m_mode == 4 ? MSG_DONTWAIT : 0;
  int t = fmc_tid();
  long sw = fmc_thread_switches(t);
  long r;
  rt_set_errno(0);
  switch (m_op) {
    case 0: r = m_mode == 4 ? recv(m_sv[0], buf, 8, flags) : read(m_sv[0], buf, 8); break;
    case 1: r = recv(m_sv[0], buf, 8, flags); break;
    case 2: r = m_mode == 4 ? send(m_sv[0], buf, 8, flags) : write(m_sv[0], buf, 8); break;
    case 3: r = send(m_sv[0], buf, 8, flags); break;
    default: r = accept(m_listen, 0, 0); break;
  }
  int e = rt_errno();
  int switched = fmc_tid() != t || fmc_thread_switches(fmc_tid()) != sw;
  set_result(r, e, switched);
  return 0;
}
static void grid2(void) {
  m_mode = fmc_input(5);   // 0 default 1 fcntl O_NONBLOCK 2 FIONBIO on 3 FIONBIO on->off 4 MSG_DONTWAIT
  m_op = fmc_input(5);     // 0 read empty 1 recv empty 2 write full 3 send full 4 accept nothing pending
  if (m_mode == 4 && m_op == 4) return;  // accept has no flags argument
  int target;
  struct sockaddr_un sa = {AF_UNIX, ""};
  if (m_op == 4) {
    m_listen = socket(AF_UNIX, SOCK_STREAM, 0);
    snprintf(sa.sun_path + 1, sizeof sa.sun_path - 1, "fmc-io-%d-%d", (int)getpid(), m_mode);
    if (m_listen < 0 || bind(m_listen, (struct sockaddr*)&sa, sizeof(sa.sun_family) + 1 + strlen(sa.sun_path + 1)) || listen(m_listen, 4)) fmc_fail("io harness: listen failed (errno %d)", rt_errno());
    target = m_listen;
  } else {
    mk_pair(m_sv);
    if (m_op >= 2) fill_send_buffer(m_sv[0]);
    target = m_sv[0];
  }
  set_mode(target, m_mode);
  int nonblocking = m_mode == 1 || m_mode == 2 || m_mode == 4;
  fiber_t* tk = fiber_create(STK, ticker, 0);
  fiber_t* c = fiber_create(STK, m_caller, 0);
  // let the caller run until it has returned or blocked
  int before = ticks_seen();
  for (int i = 0; i < 6 && !result_ready(); i++) fiber_yield();
  if (nonblocking) {
    if (!result_ready()) fmc_fail("io: mode %d op %d: a non-blocking call did not return immediately (the fiber was suspended)", m_mode, m_op);
    if (m_ret != -1 || (m_errno != EAGAIN && m_errno != EWOULDBLOCK)) fmc_fail("io: mode %d op %d: non-blocking call returned %ld errno %d, expected -1/EAGAIN", m_mode, m_op, m_ret, m_errno);
    if (m_switched) fmc_fail("io: mode %d op %d: a non-blocking call switched fibers", m_mode, m_op);
  } else {
    if (result_ready()) fmc_fail("io: mode %d op %d: blocking call returned %ld errno %d although nothing was ready (EAGAIN must never reach a blocking caller)", m_mode, m_op, m_ret, m_errno);
    if (ticks_seen() == before) fmc_fail("io: mode %d op %d: the ticker fiber did not run while the caller was blocked", m_mode, m_op);
    // now let the peer act
    int cfd = -1;
    if (m_op <= 1) { if (syscall(SYS_write, m_sv[1], "wxyz", 4) != 4) fmc_fail("io harness: peer write failed"); }
    else if (m_op <= 3) drain_raw(m_sv[1]);
    else {
      cfd = syscall(SYS_socket, AF_UNIX, SOCK_STREAM, 0);
      if (syscall(SYS_connect, cfd, &sa, sizeof(sa.sun_family) + 1 + strlen(sa.sun_path + 1))) fmc_fail("io harness: peer connect failed errno %d", rt_errno());
    }
    for (int i = 0; i < 50 && !result_ready(); i++) { rt_force_balance(); fiber_yield(); }
    if (!result_ready()) fmc_fail("io: mode %d op %d: blocked caller was not resumed after the descriptor became ready", m_mode, m_op);
    if (m_ret < 0) fmc_fail("io: mode %d op %d: blocking call failed with errno %d after the peer acted", m_mode, m_op, m_errno);
    if ((m_op <= 1 && m_ret != 4) || ((m_op == 2 || m_op == 3) && (m_ret < 1 || m_ret > 8))) fmc_fail("io: mode %d op %d: unexpected transfer size %ld", m_mode, m_op, m_ret);
  }
  set_stop();
  fiber_join(c, 0);
  fiber_join(tk, 0);
  fmc_obs(m_mode * 8 + m_op);
}

// ---------------------------------------------------------------- sc=3 transfers
static const int chunk_sizes[] = {1, 7, 5000, 70000};
static const int buf_sizes[] = {1, 5, 8192};
static int t_sv[2], t_nchunks, t_chunks[3], t_bufsz;
static long t_written, t_total;
GHOST static void wrote(long n) { t_written += n; }
GHOST static long written(void) { return t_written; }
static unsigned char stream_byte(long pos) { return (unsigned char)((pos * 131 + (pos >> 8) * 7 + 3) & 0xff); }

static void* t_writer(void* p) {
  static unsigned char out[70000];
  long pos = 0;
  for (int c = 0; c < t_nchunks; c++) {
    int len = t_chunks[c];
    for (int i = 0; i < len; i++) out[i] = stream_byte(pos + i);
    int off = 0;
    while (off < len) {
      ssize_t n = (c & 1) ? send(t_sv[0], out + off, len - off, 0) : write(t_sv[0], out + off, len - off);
      if (n < 0) fmc_fail("io: blocking write failed with errno %d after %ld bytes", rt_errno(), pos + off);
      if (n == 0 || n > len - off) fmc_fail("io: write of %d bytes returned %zd", len - off, n);
      off += n;
      wrote(n);
    }
    pos += len;
  }
  return 0;
}
static void* t_reader(void* p) {
  static unsigned char in[8192];
  long pos = 0;
  int k = 0;
  while (pos < t_total) {
    ssize_t n = (k++ & 1) ? recv(t_sv[1], in, t_bufsz, 0) : read(t_sv[1], in, t_bufsz);
    if (n < 0) fmc_fail("io: blocking read failed with errno %d at stream position %ld", rt_errno(), pos);
    if (n == 0) fmc_fail("io: read returned 0 (end of file) at position %ld although the peer has not closed", pos);
    if (n > t_bufsz) fmc_fail("io: read returned more than the buffer size");
    if (pos + n > written()) fmc_fail("io: read returned bytes that were never written");
    for (int i = 0; i < n; i++)
      if (in[i] != stream_byte(pos + i)) fmc_fail("io: byte %ld of the stream arrived corrupted, duplicated or out of order", pos + i);
    pos += n;
  }
  return 0;
}
static void grid3(void) {
  t_nchunks = 1 + fmc_input(2);
  t_total = 0;
  for (int c = 0; c < t_nchunks; c++) { t_chunks[c] = chunk_sizes[fmc_input(4)]; t_total += t_chunks[c]; }
  t_bufsz = buf_sizes[fmc_input(3)];
  if (t_total / t_bufsz > 3000) return;  // 1-byte reads of 70 kB: skipped (cost), covered with the 5-byte buffer
  mk_pair(t_sv);
  int sz = 4608;
  setsockopt(t_sv[0], SOL_SOCKET, SO_SNDBUF, &sz, sizeof sz);
  fiber_t* r = fiber_create(STK, t_reader, 0);
  fiber_t* w = fiber_create(STK, t_writer, 0);
  fmc_yield();
  fiber_join(w, 0);
  fiber_join(r, 0);
  fmc_obs(t_total * 16 + t_bufsz);
}

// ---------------------------------------------------------------- sc=4..7 several fibers per descriptor
static int s_sv[2], s_got[4], s_listen;
static struct sockaddr_un s_sa;
static int s_accepted;
GHOST static void got_byte(int who, int v) { s_got[who] = v; }
GHOST static void accepted_one(void) { s_accepted++; }
GHOST static int accepted(void) { return s_accepted; }
GHOST static int got0(void) { return s_got[0]; }
static void* one_reader(void* p) {
  int id = (int)(intptr_t)p;
  unsigned char b = 0;
  ssize_t n = read(s_sv[1], &b, 1);
  if (n != 1) fmc_fail("io: reader %d: blocking read returned %zd errno %d", id, n, rt_errno());
  got_byte(id, b);
  return 0;
}
static void* two_writer(void* p) {
  if (write(s_sv[0], "A", 1) != 1) fmc_fail("io: write failed");
  fiber_yield();
  if (write(s_sv[0], "B", 1) != 1) fmc_fail("io: write failed");
  return 0;
}
static void* blocked_writer(void* p) {
  char buf[2048];
  memset(buf, 'w', sizeof buf);
  ssize_t n = write(s_sv[1], buf, sizeof buf);  // the peer's receive side is full: blocks for POLLOUT on s_sv[1]
  if (n < 1) fmc_fail("io: blocked writer: write returned %zd errno %d", n, rt_errno());
  return 0;
}
static void* acceptor(void* p) {
  int id = (int)(intptr_t)p;
  int fd = accept(s_listen, 0, 0);
  if (fd < 0) fmc_fail("io: acceptor %d: accept on a blocking descriptor failed with errno %d%s", id, rt_errno(), (rt_errno() == EAGAIN || rt_errno() == EWOULDBLOCK) ? " (EAGAIN must never reach a blocking caller)" : "");
  got_byte(id, fd);
  accepted_one();
  return 0;
}
static void* closing_reader(void* p) {
  unsigned char b;
  rt_set_errno(0);
  ssize_t n = read(s_sv[1], &b, 1);
  if (n > 0) fmc_fail("io: read on a descriptor closed by another fiber returned data");
  got_byte(0, n == 0 ? 1000 : rt_errno());
  return 0;
}
static int r_sv[2], r_about;
GHOST static void r_set_about(void) { r_about = 1; }
GHOST static int r_is_about(void) { return r_about; }
static void* closer(void* p) {
  close(s_sv[0]);
  close(s_sv[1]);
  return 0;
}
static void* reuser(void* p) {
  // gets the lowest free descriptor numbers - the ones the closer is giving back
  if (socketpair(AF_UNIX, SOCK_STREAM, 0, r_sv)) fmc_fail("io harness: socketpair failed");
  r_set_about();
  fiber_yield();  // anything may happen between creating a socket and first using it
  unsigned char b = 0;
  rt_set_errno(0);
  ssize_t n = read(r_sv[0], &b, 1);
  if (n != 1 || b != 'R') fmc_fail("io: blocking read on a freshly created socket returned %zd errno %d%s", n, rt_errno(), (rt_errno() == EAGAIN || rt_errno() == EWOULDBLOCK) ? " (EAGAIN must never reach a blocking caller)" : "");
  got_byte(0, b);
  return 0;
}
static int p_fd[2];
static void* eof_reader(void* p) {
  unsigned char b;
  rt_set_errno(0);
  ssize_t n = read(p_fd[0], &b, 1);
  if (n != 0) fmc_fail("io: read on a pipe whose only writer was closed returned %zd errno %d (expected 0: end of file)", n, rt_errno());
  got_byte(0, 1000);
  return 0;
}
static void* epipe_writer(void* p) {
  char buf[512];
  memset(buf, 'p', sizeof buf);
  rt_set_errno(0);
  ssize_t n = write(p_fd[1], buf, sizeof buf);  // the pipe is full: blocks until it can write or the reader is gone
  if (!(n == -1 && rt_errno() == EPIPE)) fmc_fail("io: write on a full pipe whose only reader was closed returned %zd errno %d (expected -1/EPIPE)", n, rt_errno());
  got_byte(0, 1000);
  return 0;
}
static void multi(void) {
  fiber_t* f[4];
  int nf = 0;
  if (sc == 4) {
    mk_pair(s_sv);
    f[nf++] = fiber_create(STK, one_reader, (void*)0);
    f[nf++] = fiber_create(STK, one_reader, (void*)1);
    f[nf++] = fiber_create(STK, two_writer, 0);
  } else if (sc == 5) {
    mk_pair(s_sv);
    fill_send_buffer(s_sv[1]);  // s_sv[1] cannot send until s_sv[0] is drained
    f[nf++] = fiber_create(STK, one_reader, (void*)0);   // waits for POLLIN on s_sv[1]
    f[nf++] = fiber_create(STK, blocked_writer, 0);      // waits for POLLOUT on s_sv[1]
    fiber_yield();
    fmc_yield();
    if (syscall(SYS_write, s_sv[0], "Q", 1) != 1) fmc_fail("io harness: peer write failed");  // makes s_sv[1] readable
    // readiness for ONE direction only: the reader must get its byte while the writer (woken
    // together with it) finds the socket still full and goes back to waiting
    for (int i = 0; i < 200 && !got0(); i++) { rt_force_balance(); fiber_yield(); }
    if (!got0()) fmc_fail("io: reader blocked on a descriptor was not resumed when it became readable (a writer waits on the same descriptor)");
    drain_raw(s_sv[0]);  // now it becomes writable
  } else if (sc == 6) {
    s_listen = socket(AF_UNIX, SOCK_STREAM, 0);
    s_sa.sun_family = AF_UNIX;
    snprintf(s_sa.sun_path + 1, sizeof s_sa.sun_path - 1, "fmc-io-acc-%d", (int)getpid());
    socklen_t sl = sizeof(s_sa.sun_family) + 1 + strlen(s_sa.sun_path + 1);
    if (s_listen < 0 || bind(s_listen, (struct sockaddr*)&s_sa, sl) || listen(s_listen, 4)) fmc_fail("io harness: listen failed");
    f[nf++] = fiber_create(STK, acceptor, (void*)0);
    f[nf++] = fiber_create(STK, acceptor, (void*)1);
    fiber_yield();
    fmc_yield();
    for (int k = 0; k < 2; k++) {
      int c = syscall(SYS_socket, AF_UNIX, SOCK_STREAM, 0);
      if (syscall(SYS_connect, c, &s_sa, sl)) fmc_fail("io harness: connect failed errno %d", rt_errno());
      // the second connection is only made once the first has been accepted: both
      // acceptors are woken by the first one and only one of them can get it
      for (int i = 0; i < 200 && accepted() <= k; i++) { rt_force_balance(); fiber_yield(); }
      if (accepted() <= k) fmc_fail("io: a pending connection was not accepted by either blocked acceptor");
    }
  } else if (sc == 9 || sc == 10) {
    signal(SIGPIPE, SIG_IGN);
    if (pipe(p_fd)) fmc_fail("io harness: pipe failed");
    if (sc == 10) {
      char buf[4096];
      memset(buf, 'f', sizeof buf);
      while (syscall(SYS_write, p_fd[1], buf, sizeof buf) > 0) {}  // the shim made the pipe non-blocking: fill it
    }
    f[nf++] = fiber_create(STK, sc == 9 ? eof_reader : epipe_writer, 0);
    fiber_yield();
    fmc_yield();
    // the other end goes away behind the library's back (another process closing its end): the
    // only readiness the kernel reports to the poller is EPOLLHUP / EPOLLERR
    syscall(SYS_close, p_fd[sc == 9 ? 1 : 0]);
    for (int i = 0; i < 200 && !got0(); i++) { rt_force_balance(); fiber_yield(); }
    if (!got0()) fmc_fail("io: a fiber blocked on a pipe was not resumed when the other end was closed (hang-up / error readiness)");
  } else if (sc == 8) {
    mk_pair(s_sv);
    f[nf++] = fiber_create(STK, closer, 0);
    f[nf++] = fiber_create(STK, reuser, 0);
    // main blocks in a join: the two fibers share the two kernel threads among themselves
    if (fiber_join(f[0], 0) != FIBER_SUCCESS) fmc_fail("io harness: join failed");
    f[0] = f[1];
    nf = 1;
    for (int i = 0; i < 100 && !r_is_about(); i++) fiber_yield();
    if (!r_is_about()) fmc_fail("io harness: the reusing fiber did not start");
    for (int i = 0; i < 3; i++) { rt_force_balance(); fiber_yield(); }  // give the reader time to block first
    if (syscall(SYS_write, r_sv[1], "R", 1) != 1) fmc_fail("io harness: peer write failed");
  } else {
    mk_pair(s_sv);
    f[nf++] = fiber_create(STK, closing_reader, 0);
    fiber_yield();
    fmc_yield();
    close(s_sv[1]);
  }
  for (int i = 0; i < nf; i++)
    if (fiber_join(f[i], 0) != FIBER_SUCCESS) fmc_fail("io harness: join failed");
  if (sc == 4 && !((s_got[0] == 'A' && s_got[1] == 'B') || (s_got[0] == 'B' && s_got[1] == 'A')))
    fmc_fail("io: two readers received %d and %d instead of one message each", s_got[0], s_got[1]);
  if (sc == 6 && s_got[0] == s_got[1]) fmc_fail("io: two acceptors returned the same descriptor");
  fmc_obs(s_got[0] * 256 + s_got[1]);
}

static int io_quiescent(void) {
  fmc_fail("io: a fiber blocked on a descriptor was never resumed although the descriptor became ready or was closed (all kernel threads idle)");
  return 0;
}

int harness_main(void) {
  sc = fmc_param("sc", 1);
  rt_start();
  rt_quiescent_hook = io_quiescent;
  fmc_begin();
  if (sc == 1) grid1();
  else if (sc == 2) grid2();
  else if (sc == 3) grid3();
  else multi();
  rt_finish();
  return 0;
}
