// C13: mpmc_fifo (optimistic FIFO + hazard pointers) under raw threads.
// Every thread owns a hazard record; retire_threshold is forced to 1 so a
// scan runs at every retirement; retired nodes are really freed (poisoned and
// shadow-checked) or, with -Drecycle=1, handed straight to the next push of the
// retiring thread (forced address reuse, the ABA shape).
// Oracle: brute-force linearizability of each complete history against a FIFO
// queue where pop may report empty if a push overlapped it; heap shadow on
// every node access.
#include "mpmc_fifo.h"
#include "raw_common.h"

enum { OP_PUSH = 1, OP_POP = 2 };
static mpmc_fifo_t fifo;
static _Atomic(hazard_pointer_thread_record_t*) hp_head;
static hazard_pointer_thread_record_t* rec[4];
static int shape, recycle;
static hazard_node_t* freelist[4];

typedef struct { uint8_t n; uint8_t v[8]; } qstate_t;
static int spec(void* st_, const fmc_op_t* op, int ret_known) {
  qstate_t* st = st_;
  if (op->kind == OP_PUSH) {
    if (st->n >= 8) return 0;
    st->v[st->n++] = (uint8_t)op->arg;
    return 1;
  }
  if (!ret_known) return 1;
  if (op->ret == 0) return op->arg || st->n == 0 || fmc_tso_mode();
  if (!st->n || st->v[0] != op->ret) return 0;
  memmove(st->v, st->v + 1, 7);
  st->n--;
  return 1;
}

static void gc_free(void* d, hazard_node_t* n) { free(n); }
static void gc_recycle(void* d, hazard_node_t* n) {
  int t = fmc_tid();
  n->next = freelist[t];
  freelist[t] = n;
}

static mpmc_fifo_node_t* new_node(void) {
  int t = fmc_tid();
  mpmc_fifo_node_t* n;
  if (recycle && freelist[t]) {
    n = (mpmc_fifo_node_t*)freelist[t];
    freelist[t] = freelist[t]->next;
  } else {
    n = malloc(sizeof *n);
  }
  n->hazard.gc_data = 0;
  n->hazard.gc_function = recycle ? gc_recycle : gc_free;
  return n;
}

static void do_push(int t, int val) {
  mpmc_fifo_node_t* n = new_node();
  n->value = (void*)(intptr_t)val;
  int op = fmc_op_begin(OP_PUSH, val);
  mpmc_fifo_push(rec[t], &fifo, n);
  fmc_op_end(op, 0);
}
static void do_pop(int t) {
  int op = fmc_op_begin(OP_POP, 0);
  void* r = mpmc_fifo_trypop(rec[t], &fifo);
  fmc_op_end(op, (intptr_t)r);
}

static const char* scripts[][3] = {
    {"PP", "PP", "ooo"},  // 0
    {"PP", "oo", "oo"},   // 1
    {"Po", "Po", "Po"},   // 2
    {"PPo", "oPo", ""},   // 3
    {"PoPo", "oPoP", ""}, // 4: heavy node turnover (reuse)
    {"PP", "ooo", ""},    // 5
};

static void* body(void* p) {
  int t = (int)(intptr_t)p;
  int seq = 0;
  for (const char* s = scripts[shape][t - 1]; *s; s++) {
    if (*s == 'P') do_push(t, t * 10 + (++seq));
    else do_pop(t);
  }
  raw_set_done(t);
  return 0;
}

GHOST static void check(int pushed) {
  fmc_op_t* o = fmc_ops();
  int n = fmc_nops(), popped = 0;
  for (int i = 0; i < n; i++) {
    if (o[i].kind != OP_POP) continue;
    o[i].arg = 0;
    if (o[i].ret) popped++;
    for (int j = 0; j < n; j++)
      if (o[j].kind == OP_PUSH && o[j].inv < o[i].resp && (!o[j].resp || o[i].inv < o[j].resp)) o[i].arg = 1;
  }
  qstate_t init;
  memset(&init, 0, sizeof init);
  if (!fmc_linearizable(spec, &init, sizeof init)) {
    char h[500];
    fmc_history_dump(h, sizeof h);
    fmc_fail("mpmc_fifo: history is not linearizable as a FIFO queue (lost/duplicated/mis-ordered value or empty with a completed push pending): %s", h);
  }
  if (popped != pushed) fmc_fail("mpmc_fifo: %d values pushed, %d popped after draining", pushed, popped);
  fmc_history_obs();
}

int harness_main(void) {
  shape = fmc_param("shape", 0);
  recycle = fmc_param("recycle", 0);
  int nt = scripts[shape][2][0] ? 3 : 2;
  for (int i = 0; i <= nt; i++) rec[i] = hazard_pointer_thread_record_create_and_push(&hp_head, MPMC_HAZARD_COUNT);
  // the list head keeps its true threshold (scan sizes its scratch array from it); an
  // extra record that nobody uses is registered last so that every working record can
  // be forced to scan at each retirement
  hazard_pointer_thread_record_create_and_push(&hp_head, MPMC_HAZARD_COUNT);
  int thr = fmc_param("threshold", 1);
  for (int i = 0; i <= nt; i++) rec[i]->retire_threshold = thr;
  mpmc_fifo_node_t* init = malloc(sizeof *init);
  init->hazard.gc_data = 0;
  init->hazard.gc_function = recycle ? gc_recycle : gc_free;
  mpmc_fifo_init(&fifo, init);
  int pushed = 0;
  for (int t = 0; t < nt; t++)
    for (const char* s = scripts[shape][t]; *s; s++) pushed += *s == 'P';
  raw_run(nt, body);
  for (int i = 0; i < pushed + 1; i++) do_pop(0);
  check(pushed);
  fmc_end();
}
