// helpers shared by the whole-runtime harnesses (fiber_manager_init(N) programs)
#ifndef RT_COMMON_H
#define RT_COMMON_H
#include <stdint.h>
#include <stdlib.h>
#include <string.h>

#include "fiber_manager.h"
#include "fiber_scheduler.h"
#include "fmc.h"

extern const char* fmc_wrap_end_check(void);
extern int fmc_fiber_index(fiber_t* f);
extern long fmc_fiber_runs(fiber_t* f);
extern long fmc_thread_switches(int tid);

#define STK 20000

// errno is thread-local and a fiber can come back from a blocking call on another kernel thread;
// __errno_location() is declared const, so a plain `errno` may use the previous thread's. Harness
// fibers read and write errno only through these (see the errno finding in DESIGN.md, section 4)
#include <errno.h>
static __attribute__((noinline)) int rt_errno(void) { return errno; }
static __attribute__((noinline)) void rt_set_errno(int v) { errno = v; }

// start the runtime with N kernel threads; oracle mask from -Doracles (default: heap+stack only,
// the C01/C02 checks add the run map / wake accounting)
static inline int rt_start(void) {
  int n = fmc_param("N", 2);
  fmc_oracles((unsigned)fmc_param("oracles", FMC_O_HEAP | FMC_O_STACK | FMC_O_RECLAIM | FMC_O_OWNER));
  if (fiber_manager_init(n) != FIBER_SUCCESS) fmc_fail("fiber_manager_init failed");
  // -Dfocusq=1: the run queues themselves (scheduler records, both deques of every kernel thread and
  // their arrays) are declared as focus ranges too: with -focus, pre-emptions then also fall on
  // run-queue operations (who pushes/pops/steals which fiber when)
  if (fmc_param("focusq", 0)) {
    for (int i = 0; i < n; i++) {
      struct { wsd_work_stealing_deque_t *q1, *q2, *from, *to; }* sp = (void*)fiber_scheduler_for_thread(i);
      fmc_focus(sp, sizeof *sp);
      wsd_work_stealing_deque_t* q[2] = {sp->q1, sp->q2};
      for (int k = 0; k < 2; k++) {
        fmc_focus(q[k], sizeof *q[k]);
        fmc_focus(q[k]->underlying_array, sizeof(wsd_circular_array_t) + sizeof(void*) * wsd_circular_array_size(q[k]->underlying_array));
      }
    }
  }
  return n;
}

#include "fiber_signal.h"
// harness-specific quiescence handler (virtual timer ticks, expected-blocked checks)
static int (*rt_quiescent_hook)(void);
static int rt_finishing;
static fiber_signal_t rt_never;

// "when every kernel thread has gone idle no runnable fiber remains": the C02
// end-state check runs when the main fiber has finished AND all threads idle.
int fmc_on_quiescent(void) {
  if (rt_finishing) {
    const char* m = fmc_wrap_end_check();
    if (m) fmc_fail("%s", m);
    fmc_end();
  }
  return rt_quiescent_hook ? rt_quiescent_hook() : 0;
}

GHOST static void rt_set_finishing(void) { rt_finishing = 1; }

// finish: with the wake-accounting oracle on, park the main fiber forever and
// let the remaining fibers (woken by join) run out; then check; else just end.
static inline void rt_finish(void) {
  if (fmc_oracle_mask() & FMC_O_WAKES) {
    rt_set_finishing();
    fiber_signal_init(&rt_never);
    fiber_signal_wait(&rt_never);
    fmc_fail("rt_finish: main fiber resumed from a signal nobody raises");
  }
  fmc_end();
}

// park the main fiber for good; when every kernel thread has gone idle `hook` runs
// (it checks the end state and calls fmc_end(), or fails)
static inline void rt_park_until_quiescent(int (*hook)(void)) {
  rt_quiescent_hook = hook;
  fiber_signal_init(&rt_never);
  fiber_signal_wait(&rt_never);
  fmc_fail("rt_park: main fiber resumed from a signal nobody raises");
}

// -Dperm=1: the order in which the harness creates its n fibers is an enumerated input (n! cases):
// creation order decides who is popped first by the creating thread and who is stolen first, i.e.
// which interleavings are cheap in pre-emptions
static inline void rt_creation_order(int n, int* order) {
  int fact = 1;
  for (int i = 2; i <= n; i++) fact *= i;
  int k = fmc_param("perm", 0) ? fmc_input(fact) : 0;
  int pool[8];
  for (int i = 0; i < n; i++) pool[i] = i;
  for (int i = 0; i < n; i++) {
    fact /= (n - i);
    int j = k / fact;
    k %= fact;
    order[i] = pool[j];
    for (int m = j; m < n - i - 1; m++) pool[m] = pool[m + 1];
  }
}


// -Dpin=1: fiber number i is created directly on the run queue of kernel thread i % N instead of
// the creating thread's (-Dpin=2: the placement of every fiber is an enumerated input, N^n cases;
// -Dpin=3 -Dplace=<digits>: explicit placement).
// The other kernel threads have not run yet when the harness creates its fibers, so the push is
// race-free, and "a ready fiber that has never run sits in the queue of thread k" is what a
// fiber_create() executed by any fiber on thread k leaves behind. Every thread serves its own queue
// before it steals, so with one fiber per kernel thread the pre-emption budget is spent on the
// object under test instead of on getting the fibers onto different threads.
// The placement must be over before any other kernel thread runs: rt_pin_begin() goes BEFORE
// fmc_begin(), rt_pin_end() after the last rt_create(); in between the main thread is not switched out.
static inline void rt_pin_begin(void) { if (fmc_param("pin", 0)) fmc_atomic(1); }
static inline void rt_pin_end(void) { fmc_atomic(0); }
static inline fiber_t* rt_create(int i, size_t stk, fiber_run_function_t fn, void* arg) {
  int pin = fmc_param("pin", 0), n = fmc_param("N", 2);
  if (!pin) return fiber_create(stk, fn, arg);
  if (!fmc_in_atomic()) { fmc_log("harness error: pinned creation outside rt_pin_begin/rt_pin_end"); abort(); }
  int t = pin == 2 ? fmc_input(n) : i % n;
  if (pin == 3) {  // -Dplace=<decimal digits>: digit number i (least significant first) is the kernel thread of fiber i
    int pl = fmc_param("place", 0);
    for (int k = 0; k < i; k++) pl /= 10;
    t = pl % 10 % n;
  }
  fiber_t* f = fiber_create_no_sched(stk, fn, arg);
  if (!f) fmc_fail("rt_create: fiber_create_no_sched failed");
  fiber_scheduler_schedule(fiber_scheduler_for_thread(t), f);
  return f;
}

// force the 1-in-1024 load-balance path on the next plain yield of this thread
static inline void rt_force_balance(void) { fiber_manager_get()->yield_count = 1023; }

#endif
