// C01/C02 programs that are not tied to one primitive:
//  prog=0 yield storm: 3 fibers yield twice each, the load-balance path of
//         fiber_manager_yield is forced (yield_count=1023) so stealing happens
//         from inside yield as well as from the idle loop
//  prog=1 create storm: main creates 3 short fibers back to back while the
//         other kernel thread steals; each must run exactly once
//  prog=2 mixed: mutex + cond + join + yield in one program
//  prog=3 deferred work of the post-switch maintenance step: the main fiber enters fiber_cond_wait
//         (its mutex unlock is deferred to whichever fiber runs next on the thread) while a
//         contender on the other kernel thread is locking that mutex, and two trivial detached
//         fibers start and finish on the main fiber's thread meanwhile (their stacks are released
//         by the same maintenance step)
// The oracles are the engine's run map (a fiber runs on one thread at a time
// and is resumed only from a saved state), the wake accounting (one run per
// wake-up, nothing left queued at quiescence), heap shadow and stack liveness.
#include "fiber_cond.h"
#include "rt_common.h"

static int prog;
static int g_runs[8], g_ran_total;
static fiber_mutex_t M;
static fiber_cond_t C;
static int ready_flag;

GHOST static void ran(int id) { g_runs[id]++; g_ran_total++; fmc_obs(id * 4 + fmc_tid()); }

static void* yielder(void* p) {
  int id = (int)(intptr_t)p;
  ran(id);
  for (int k = 0; k < 2; k++) {
    if (k == 0 && id == 0) rt_force_balance();
    fiber_yield();
  }
  return (void*)(intptr_t)(id + 1);
}
static void* shorty(void* p) {
  ran((int)(intptr_t)p);
  return (void*)(intptr_t)((int)(intptr_t)p + 1);
}
static void* cwaiter(void* p) {
  fiber_mutex_lock(&M);
  while (!ready_flag) fiber_cond_wait(&C, &M);
  fiber_mutex_unlock(&M);
  ran(0);
  return (void*)1;
}
static void* csetter(void* p) {
  fiber_yield();
  fiber_mutex_lock(&M);
  ready_flag = 1;
  fiber_cond_signal(&C);
  fiber_mutex_unlock(&M);
  ran(1);
  return (void*)2;
}

static int g_cabout;
GHOST static void cabout(void) { g_cabout = 1; }
GHOST static int is_cabout(void) { return g_cabout; }
static void* contender(void* p) {
  cabout();
  fiber_mutex_lock(&M);
  ready_flag = 1;
  fiber_cond_signal(&C);
  fiber_mutex_unlock(&M);
  ran(0);
  return (void*)1;
}
static void* trivial(void* p) {
  ran((int)(intptr_t)p);
  return 0;
}

int harness_main(void) {
  prog = fmc_param("prog", 0);
  rt_start();
  fiber_mutex_init(&M);
  fiber_cond_init(&C);
  fiber_t* f[4];
  int nf = 0;
  fmc_begin();
  if (prog == 0) {
    for (; nf < 3; nf++) f[nf] = fiber_create(STK, yielder, (void*)(intptr_t)nf);
    rt_force_balance();
    fiber_yield();
  } else if (prog == 1) {
    for (; nf < 3; nf++) f[nf] = fiber_create(STK, shorty, (void*)(intptr_t)nf);
  } else if (prog == 3) {
    fiber_mutex_lock(&M);
    f[nf++] = fiber_create(STK, contender, 0);
    while (!is_cabout()) fmc_yield();  // the other kernel thread steals the contender (main has not switched yet)
    fiber_detach(fiber_create(STK, trivial, (void*)2));
    fiber_detach(fiber_create(STK, trivial, (void*)3));
    while (!ready_flag) fiber_cond_wait(&C, &M);
    fiber_mutex_unlock(&M);
  } else {
    f[nf++] = fiber_create(STK, cwaiter, 0);
    f[nf++] = fiber_create(STK, csetter, 0);
    fiber_yield();
  }
  fmc_yield();
  for (int i = 0; i < nf; i++) {
    void* r = 0;
    if (fiber_join(f[i], &r) != FIBER_SUCCESS || r != (void*)(intptr_t)(i + 1)) fmc_fail("mix: join of fiber %d failed or returned a wrong value", i);
  }
  for (int i = 0; i < nf; i++)
    if (g_runs[i] != 1) fmc_fail("mix: fiber %d's function body ran %d times", i, g_runs[i]);
  rt_finish();
  return 0;
}
