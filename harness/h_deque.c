// C02 (layer 1): the Chase-Lev work stealing deque alone, one owner thread and
// one or two thieves; the initial array is replaced by a 2-slot array so that
// the second push grows it while a thief may still hold the old one.
// Oracle: the history must linearize against a sequential deque (owner pushes
// and pops at the bottom, thieves take from the top) where EMPTY requires an
// empty deque at the linearization point and ABORT is only allowed when
// another take overlapped the call. This subsumes "no entry dropped, no entry
// handed to two takers".
#include "raw_common.h"
#include "work_stealing_deque.h"

enum { OP_PUSH = 1, OP_POP = 2, OP_STEAL = 3 };
static wsd_work_stealing_deque_t* dq;
static int shape;

typedef struct { uint8_t n; uint8_t v[8]; } dstate_t;
#define R_EMPTY (-1)
#define R_ABORT (-2)

static int spec(void* st_, const fmc_op_t* op, int ret_known) {
  dstate_t* st = st_;
  if (op->kind == OP_PUSH) {
    if (st->n >= 8) return 0;
    st->v[st->n++] = (uint8_t)op->arg;
    return 1;
  }
  if (!ret_known) return 1;
  if (op->ret == R_ABORT) return op->arg != 0;  // some other take overlapped
  // a thief's EMPTY is not held to real-time order: the owner publishes `bottom` with a
  // release store, so under x86-TSO a completed push may be invisible to a thief for a while
  // (the runtime only uses steal as a best-effort probe). The owner's own EMPTY is strict.
  if (op->ret == R_EMPTY) return op->kind == OP_STEAL || st->n == 0;
  if (!st->n) return 0;
  if (op->kind == OP_POP) {
    if (st->v[st->n - 1] != op->ret) return 0;
    st->n--;
  } else {
    if (st->v[0] != op->ret) return 0;
    memmove(st->v, st->v + 1, 7);
    st->n--;
  }
  return 1;
}

static const char* scripts[][3] = {
    {"PPpp", "ss", ""},   // 0
    {"PpPp", "ss", ""},   // 1
    {"PPPp", "s", "s"},   // 2
    {"Pp", "s", ""},      // 3
    {"PPp", "ss", ""},    // 4
    {"PPPpp", "ss", ""},  // 5
    {"PPPPPp", "s", ""},  // 6: the 2-slot array grows twice (2 -> 4 -> 8) while a thief may be inside one steal
    {"PPPPPpp", "ss", ""},// 7
};

static void do_op(int kind, int val) {
  int op = fmc_op_begin(kind, val);
  intptr_t r = 0;
  if (kind == OP_PUSH) wsd_work_stealing_deque_push_bottom(dq, (void*)(intptr_t)val);
  else if (kind == OP_POP) r = (intptr_t)wsd_work_stealing_deque_pop_bottom(dq);
  else r = (intptr_t)wsd_work_stealing_deque_steal(dq);
  fmc_op_end(op, r);
}

static void* body(void* p) {
  int t = (int)(intptr_t)p;
  int seq = 0;
  for (const char* s = scripts[shape][t - 1]; *s; s++) {
    if (*s == 'P') do_op(OP_PUSH, ++seq);
    else if (*s == 'p') do_op(OP_POP, 0);
    else do_op(OP_STEAL, 0);
  }
  raw_set_done(t);
  return 0;
}

GHOST static void check(int pushed) {
  fmc_op_t* o = fmc_ops();
  int n = fmc_nops();
  int taken = 0, seen[16] = {0};
  for (int i = 0; i < n; i++) {
    if (o[i].kind == OP_PUSH) continue;
    o[i].arg = 0;
    for (int j = 0; j < n; j++)
      if (j != i && o[j].kind != OP_PUSH && o[j].inv < o[i].resp && (!o[j].resp || o[i].inv < o[j].resp)) o[i].arg = 1;
    if (o[i].ret > 0) {
      if (o[i].ret >= 16 || seen[o[i].ret]++) fmc_fail("deque: entry %ld handed to two takers (or never pushed)", (long)o[i].ret);
      taken++;
    }
  }
  if (taken != pushed) fmc_fail("deque: %d entries pushed but %d taken after draining: an entry was dropped", pushed, taken);
  dstate_t init;
  memset(&init, 0, sizeof init);
  if (!fmc_linearizable(spec, &init, sizeof init)) {
    char h[500];
    fmc_history_dump(h, sizeof h);
    fmc_fail("deque: history is not a legal deque history (wrong entry, EMPTY with entries present, or ABORT without a competing take): %s", h);
  }
  fmc_history_obs();
}

int harness_main(void) {
  shape = fmc_param("shape", 0);
  dq = wsd_work_stealing_deque_create();
  if (fmc_param("small", 1)) {
    wsd_circular_array_t* old = dq->underlying_array;
    dq->underlying_array = wsd_circular_array_create(1);
    wsd_circular_array_destroy(old);
  }
  // -Dbase=1/2: the deque has already carried 2^31-2 / 2^32-2 entries (top and bottom are
  // free-running indices that never go back; any number of operations means any value of them)
  int base = fmc_param("base", 0);
  if (base) dq->top = dq->bottom = (base == 1 ? 2147483646LL : 4294967294LL);
  int pushed = 0;
  for (const char* s = scripts[shape][0]; *s; s++) pushed += *s == 'P';
  raw_run(scripts[shape][2][0] ? 3 : 2, body);
  for (int i = 0; i < pushed + 1; i++) do_op(OP_POP, 0);  // owner drains
  check(pushed);
  if (wsd_work_stealing_deque_size(dq) != 0) fmc_fail("deque: size %zu after draining", wsd_work_stealing_deque_size(dq));
  fmc_end();
}
