// C14 (b),(c): sequential, exhaustive enumeration on the real hazard_pointer.c.
// mode 0 (scan): for 1..3 records, every assignment of the hazard slots to
//   {none, node0..node3} (duplicates across records included), every order in
//   which all four nodes are retired: after a scan exactly the unprotected
//   retired nodes have been handed to the reclamation callback and exactly the
//   protected ones are still retired. Nodes are arena blocks at ascending
//   addresses, so first/last/duplicate positions of the sorted scratch array
//   and of the binary search are all exercised. Pointer values are inputs too
//   (the scan sorts and searches them as integers): besides the arena layout the
//   nodes are placed at distances around 2^31 and 2^32 inside a reserved 9 GB
//   range (layouts 1..5), where a comparison narrowed to 32 bits goes wrong.
// mode 1 (bounded garbage): N records x K slots, an optional record joining
//   mid-run, every protection pattern over the first 6 of a stream of retired
//   nodes: retired_count < retire_threshold after every hazard_pointer_free,
//   and a node that is unprotected is reclaimed within `threshold` further
//   retirements of the same thread.
#include "hazard_pointer.h"
#include "fmc.h"
#include <stdlib.h>
#include <string.h>
#include <sys/mman.h>

typedef struct node {
  hazard_node_t hazard;
  int id, reclaimed, reclaimed_at;
} node_t;

static int g_step;
static void gc(void* d, hazard_node_t* h) {
  node_t* n = (node_t*)h;
  if (n->reclaimed) fmc_fail("hazard pointers: node %d reclaimed twice", n->id);
  n->reclaimed = 1;
  n->reclaimed_at = g_step;
}
static node_t* mk(int id) {
  node_t* n = calloc(1, sizeof *n);
  n->hazard.gc_function = gc;
  n->id = id;
  return n;
}

// layouts of the four nodes inside the reserved range (byte offsets); layout 0 = ordinary heap blocks
#define GB (1ull << 30)
static const uint64_t layouts[6][4] = {
    {0, 0, 0, 0},
    {0, 2 * GB + 64, 4 * GB + 128, 6 * GB + 192},
    {0, 64, 2 * GB, 2 * GB + 64},
    {0, 2 * GB - 64, 4 * GB - 64, 4 * GB + 64},
    {64, 3 * GB, 4 * GB + 64, 8 * GB - 64},
    {0, 4 * GB, 4 * GB + 64, 8 * GB},
};
static char* far_base;
static node_t* mk_at(int layout, int id) {
  if (!layout) return mk(id);
  if (!far_base) {
    far_base = mmap(0, 9 * GB, PROT_NONE, MAP_PRIVATE | MAP_ANONYMOUS | MAP_NORESERVE, -1, 0);
    if (far_base == MAP_FAILED) fmc_fail("hpseq harness: cannot reserve address space");
    for (int l = 1; l < 6; l++)
      for (int i = 0; i < 4; i++) {
        uintptr_t a = (uintptr_t)far_base + layouts[l][i];
        if (mprotect((void*)(a & ~4095ul), 8192, PROT_READ | PROT_WRITE)) fmc_fail("hpseq harness: mprotect failed");
      }
  }
  node_t* n = (node_t*)(far_base + layouts[layout][id]);
  memset(n, 0, sizeof *n);
  n->hazard.gc_function = gc;
  n->id = id;
  return n;
}

static void scan_mode(void) {
  static const int perms[24][4] = {{0,1,2,3},{0,1,3,2},{0,2,1,3},{0,2,3,1},{0,3,1,2},{0,3,2,1},{1,0,2,3},{1,0,3,2},{1,2,0,3},{1,2,3,0},{1,3,0,2},{1,3,2,0},
                                   {2,0,1,3},{2,0,3,1},{2,1,0,3},{2,1,3,0},{2,3,0,1},{2,3,1,0},{3,0,1,2},{3,0,2,1},{3,1,0,2},{3,1,2,0},{3,2,0,1},{3,2,1,0}};
  uint64_t cases = 0;
  for (int R = 1; R <= 3; R++) {
    int K = R == 3 ? 1 : 2;
    int slots = R * K;
    int combos = 1;
    for (int i = 0; i < slots; i++) combos *= 5;
    for (int c = 0; c < combos; c++) {
      for (int pl = 0; pl < 24 * 6; pl++) {
        int pi = pl % 24, layout = pl / 24;
        _Atomic(hazard_pointer_thread_record_t*) head = 0;
        hazard_pointer_thread_record_t* rec[3];
        for (int r = 0; r < R; r++) rec[r] = hazard_pointer_thread_record_create_and_push(&head, K);
        node_t* nd[4];
        for (int i = 0; i < 4; i++) nd[i] = mk_at(layout, i);
        int prot[4] = {0, 0, 0, 0};
        int cc = c;
        for (int s = 0; s < slots; s++) {
          int v = cc % 5;
          cc /= 5;
          if (v) {
            hazard_pointer_using(rec[s / K], &nd[v - 1]->hazard, s % K);
            prot[v - 1] = 1;
          }
        }
        for (int i = 0; i < 4; i++) hazard_pointer_free(rec[0], &nd[perms[pi][i]]->hazard);
        hazard_pointer_scan(rec[0]);
        int kept = 0;
        for (int i = 0; i < 4; i++) {
          if (prot[i] && nd[i]->reclaimed) fmc_fail("hazard pointers: protected node %d reclaimed (records=%d slots-code=%d retire-order=%d address-layout=%d)", i, R, c, pi, layout);
          if (!prot[i] && !nd[i]->reclaimed) fmc_fail("hazard pointers: unprotected retired node %d survived a scan (records=%d slots-code=%d retire-order=%d)", i, R, c, pi);
          kept += prot[i];
        }
        if ((int)rec[0]->retired_count != kept) fmc_fail("hazard pointers: retired_count=%zu but %d protected nodes remain", rec[0]->retired_count, kept);
        // release everything: next scan must reclaim the rest
        for (int s = 0; s < slots; s++) hazard_pointer_done_using(rec[s / K], s % K);
        hazard_pointer_scan(rec[0]);
        for (int i = 0; i < 4; i++)
          if (!nd[i]->reclaimed) fmc_fail("hazard pointers: node %d not reclaimed after its protection ended", i);
        if (!layout)
          for (int i = 0; i < 4; i++) free(nd[i]);
        for (int r = 0; r < R; r++) { free(rec[r]->plist); free(rec[r]); }
        cases++;
      }
    }
  }
  fmc_count(cases);
  fmc_obs(cases);
}

static void garbage_mode(void) {
  uint64_t cases = 0;
  for (int N = 1; N <= 3; N++)
    for (int K = 1; K <= 2; K++)
      for (int join = 0; join < 3; join++)
        for (int pat = 0; pat < 64; pat++) {
          _Atomic(hazard_pointer_thread_record_t*) head = 0;
          hazard_pointer_thread_record_t* rec[4];
          for (int r = 0; r < N; r++) rec[r] = hazard_pointer_thread_record_create_and_push(&head, K);
          int nrec = N;
          int total = 40;
          node_t* nd[40];
          int retired_at[40];
          int prot_until[40];
          g_step = 0;
          for (int i = 0; i < total; i++) {
            if (join && i == (join == 1 ? 2 : 7) && nrec < 4) rec[nrec++] = hazard_pointer_thread_record_create_and_push(&head, K);
            nd[i] = mk(i);
            prot_until[i] = -1;
            if (i < 6 && (pat >> i & 1) && N > 1) {  // another record protects node i for 3 further retirements
              hazard_pointer_using(rec[1 + i % (N - 1)], &nd[i]->hazard, i % K);
              prot_until[i] = i + 3;
            }
            for (int j = 0; j < i; j++)
              if (prot_until[j] == i) {
                // protection of node j ends now (only if the slot still holds it)
                hazard_pointer_thread_record_t* r = rec[1 + j % (N - 1)];
                if (r->hazard_pointers[j % K] == &nd[j]->hazard) hazard_pointer_done_using(r, j % K);
                prot_until[j] = -2 - i;  // unprotected since step i
              }
            g_step = i;
            retired_at[i] = i;
            size_t thr = rec[0]->retire_threshold;
            hazard_pointer_free(rec[0], &nd[i]->hazard);
            if (rec[0]->retired_count >= rec[0]->retire_threshold)
              fmc_fail("hazard pointers: retired_count=%zu not below retire_threshold=%zu after hazard_pointer_free (N=%d K=%d)", rec[0]->retired_count, (size_t)rec[0]->retire_threshold, N, K);
            (void)thr;
          }
          size_t thr = rec[0]->retire_threshold;
          for (int i = 0; i + (int)thr + 4 < total; i++) {
            int since = prot_until[i] <= -2 ? -2 - prot_until[i] : retired_at[i];
            if (prot_until[i] > 0) continue;  // a later node reused its slot: protection ended implicitly, skip
            if (!nd[i]->reclaimed) fmc_fail("hazard pointers: node %d (unprotected since retirement %d) never reclaimed in %d retirements (N=%d K=%d)", i, since, total, N, K);
            if (nd[i]->reclaimed_at - since > (int)thr) fmc_fail("hazard pointers: node %d reclaimed %d retirements after it became unprotected, bound is %zu (N=%d K=%d)", i, nd[i]->reclaimed_at - since, thr, N, K);
          }
          cases++;
        }
  fmc_count(cases);
  fmc_obs(cases);
}

int harness_main(void) {
  fmc_begin();
  if (fmc_param("mode", 0) == 0) scan_mode();
  else garbage_mode();
  fmc_end();
}
