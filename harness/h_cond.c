// C05: fiber_cond under the real runtime.
// W waiters register (ghost flag set under the user mutex immediately before
// fiber_cond_wait) and wait; a signaller first observes under the mutex that the
// intended number of waiters has registered - so they have begun waiting - and
// then issues signals or a broadcast, holding the mutex (-Dhold=1) or after
// releasing it. Oracle: every registered waiter a signal/broadcast was aimed at
// returns (checked when all kernel threads have gone idle), nobody returns
// without a credit (no spurious release), wait returns with the mutex held,
// waiter_count==0 and the waiter list is empty at the end.
#include "fiber_cond.h"
#include "rt_common.h"

static fiber_mutex_t M;
static fiber_cond_t C;
static int W, mode, hold, extra, rewait, early, nsig = 1, stray_on;
static int g_registered, g_returned, g_credits, g_owner = -1, g_sigdone;

GHOST static void own(int id) {
  if (g_owner != -1) fmc_fail("cond: fiber %d holds the user mutex while fiber %d also holds it", id, g_owner);
  g_owner = id;
}
GHOST static void disown(int id) {
  if (g_owner != id) fmc_fail("cond: mutex released by non-owner");
  g_owner = -1;
}
GHOST static void reg(void) { g_registered++; }
GHOST static int registered(void) { return g_registered; }
GHOST static void returned(int id) {
  g_returned++;
  if (g_returned > g_credits) fmc_fail("cond: waiter %d released without a signal or broadcast (%d returns, %d credits)", id, g_returned, g_credits);
  if (g_owner != -1) fmc_fail("cond: fiber_cond_wait returned to fiber %d while fiber %d holds the mutex", id, g_owner);
  g_owner = id;
  fmc_obs(id);
}
GHOST static void credit(int n) { g_credits += n; }
GHOST static void sigdone(void) { g_sigdone++; }

static void* waiter(void* p) {
  int id = (int)(intptr_t)p;
  for (int k = 0; k < 1 + rewait; k++) {
    fiber_mutex_lock(&M);
    own(id);
    reg();
    disown(id);
    fiber_cond_wait(&C, &M);
    returned(id);
    disown(id);
    fiber_mutex_unlock(&M);
  }
  return 0;
}

static void wait_registered(int id, int n, int keep) {
  for (;;) {
    fiber_mutex_lock(&M);
    own(id);
    if (registered() >= n) break;
    disown(id);
    fiber_mutex_unlock(&M);
    fiber_yield();
  }
  if (!keep) {
    disown(id);
    fiber_mutex_unlock(&M);
  }
}

// -Dstray=1: one more fiber issues a single signal that is aimed at nobody, concurrently with everything else
static void* stray(void* p) {
  credit(1);
  fiber_cond_signal(&C);
  return 0;
}

// -Dnoise=K: one more fiber does nothing but yield K times, so that the kernel thread it is on keeps
// pushing and popping its own run queue while the signals and wake-ups happen
static void* noise(void* p) {
  for (int k = 0; k < (int)(intptr_t)p; k++) fiber_yield();
  return 0;
}

// -Dsignallers=2: the W targeted signals are issued by two fibers concurrently (they contend on
// the condition variable's internal mutex, so one of them blocks inside fiber_cond_signal and may
// be resumed on a different kernel thread)
static void* signaller(void* p) {
  int id = 9 + (int)(intptr_t)p;
  // -Dearly=k: k signals are issued without looking whether anybody waits (they may race with
  // a waiter that is just registering, or hit an empty condition variable); each is a credit.
  for (int k = 0; k < early; k++) {
    credit(1);
    fiber_cond_signal(&C);
  }
  if (mode == 0) {  // W signals (re-wait: one registration round per signal)
    int total = W * (1 + rewait) / nsig;
    for (int k = 0; k < total; k++) {
      wait_registered(id, rewait ? k + 1 : W, hold);
      credit(1);
      fiber_cond_signal(&C);
      if (hold) { disown(id); fiber_mutex_unlock(&M); }
    }
  } else {  // one broadcast
    wait_registered(id, W + extra, hold);
    credit(W + extra);
    fiber_cond_broadcast(&C);
    if (hold) { disown(id); fiber_mutex_unlock(&M); }
  }
  sigdone();
  return 0;
}

static int at_quiescence(void) {
  int expect = mode == 0 ? W * (1 + rewait) : W + extra;
  if (g_sigdone < nsig) fmc_fail("cond: the signaller itself is stuck");
  // an early signal that found a waiter consumed its registration: the targeted signal for that
  // registration is then aimed at nobody. What must hold: at least `expect` credits were aimed at
  // registered waiters in total only when early==0; with early signals every waiter that is still
  // blocked must be one for which no later signal was issued - here all W waiters get a targeted
  // signal after registering, so with re-registration impossible (no rewait) all W must return.
  if (g_returned < expect)
    fmc_fail("cond: lost wake-up: %d signal/broadcast credits were issued to waiters that had begun waiting but only %d returned", expect, g_returned);
  int still = (W + extra) * (1 + rewait) - g_returned;
  if (mode == 0 && extra && still != extra) fmc_fail("cond: expected %d waiter(s) to remain blocked, %d remain", extra, still);
  if (C.waiter_count != still) fmc_fail("cond: waiter_count=%ld at the end, %d waiters are blocked", (long)C.waiter_count, still);
  if (!still && C.waiters.head->next) fmc_fail("cond: waiter list not empty at the end");
  if (M.counter != 1) fmc_fail("cond: user mutex counter=%d at the end", M.counter);
  fmc_obs(g_returned);
  fmc_end();
  return 0;
}

int harness_main(void) {
  W = fmc_param("W", 1);
  mode = fmc_param("mode", 0);    // 0 signal xW, 1 broadcast
  hold = fmc_param("hold", 1);
  extra = fmc_param("extra", 0);  // an additional waiter no signal is issued for (mode 0) / also woken (mode 1)
  rewait = fmc_param("rewait", 0);
  early = fmc_param("early", 0);   // unconditional signals before the targeted ones
  rt_start();
  fiber_mutex_init(&M);
  fiber_cond_init(&C);
  fmc_focus(&M, sizeof M);
  fmc_focus(&C, sizeof C);
  rt_pin_begin();
  fmc_begin();
  // -Dallcfg=1: the configuration itself is an enumerated input: 1-2 waiters x signal/broadcast x
  // signaller holding the mutex or not x 0-1 early signals x a stray signaller or not (32 programs)
  if (fmc_param("allcfg", 0)) {
    W = 1 + fmc_input(2);
    mode = fmc_input(2);
    hold = fmc_input(2);
    early = fmc_input(2);
    if (fmc_input(2)) stray_on = 1;
  }
  for (int i = 0; i < W + extra; i++) fiber_detach(rt_create(i, STK, waiter, (void*)(intptr_t)i));
  nsig = fmc_param("signallers", 1);
  for (int i = 0; i < nsig; i++) fiber_detach(rt_create(W + extra + i, STK, signaller, (void*)(intptr_t)i));
  if (fmc_param("stray", 0) || stray_on) fiber_detach(rt_create(W + extra + nsig, STK, stray, 0));
  if (fmc_param("noise", 0)) fiber_detach(fiber_create(STK, noise, (void*)(intptr_t)fmc_param("noise", 0)));
  rt_pin_end();
  rt_park_until_quiescent(at_quiescence);
  return 0;
}
