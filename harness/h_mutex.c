// C03: fiber_mutex under the real runtime with N kernel threads.
// Oracle: ghost occupancy at every acquisition (lock and successful trylock),
// a plain variable written in the critical section is seen by the next owner,
// nobody is left blocked (main joins every fiber: a stranded one is a
// DEADLOCK verdict), at the end counter==1 and the waiter list is empty.
#include "fiber_mutex.h"
#include "rt_common.h"

static fiber_mutex_t mtx;
static volatile int cs_var;  // plain, protected by the mutex
static int g_holder = -1, g_acq, g_tryfail;

GHOST static void acquired(int id, int via_try) {
  if (g_holder != -1) fmc_fail("mutex: fiber %d acquired (%s) while fiber %d holds the mutex", id, via_try ? "trylock" : "lock", g_holder);
  g_holder = id;
  g_acq++;
  fmc_obs(id * 4 + via_try);
}
GHOST static void releasing(int id) {
  if (g_holder != id) fmc_fail("mutex: release by non-holder %d (holder %d)", id, g_holder);
  g_holder = -1;
}
GHOST static void tryfailed(int id) {
  if (g_holder == -1 && 0) {}
  g_tryfail++;
}

static const char* scripts[][4] = {
    {"L", "L", "", ""},      // 0
    {"L", "L", "L", ""},     // 1
    {"LL", "L", "", ""},     // 2
    {"L", "T", "", ""},      // 3: trylock until success
    {"L", "t", "L", ""},     // 4: single trylock attempt mixed with lockers
    {"LL", "LL", "", ""},    // 5
    {"L", "T", "L", ""},     // 6: a trylock that keeps failing (and yielding) while a third fiber queues up behind the holder
    {"L", "L", "T", ""},     // 7
    {"T", "L", "L", ""},     // 8
};
static int shape;
// -Dgen=K -Dfibers=F: every program of F fibers with 1..K operations each over {L, T, t} is
// enumerated as an input instead of one of the shapes above
static char genbuf[4][8];
static const char* cur[4];

static void critical(int id) {
  int v = cs_var;
  cs_var = v + 1;
  if (cs_var != v + 1) fmc_fail("mutex: critical-section write of fiber %d not visible to itself", id);
}

static void* body(void* p) {
  int id = (int)(intptr_t)p;
  for (const char* s = cur[id]; *s; s++) {
    if (*s == 'L') {
      fiber_mutex_lock(&mtx);
      acquired(id, 0);
      critical(id);
      releasing(id);
      fiber_mutex_unlock(&mtx);
    } else if (*s == 'T') {
      while (!fiber_mutex_trylock(&mtx)) {
        tryfailed(id);
        fiber_yield();
      }
      acquired(id, 1);
      critical(id);
      releasing(id);
      fiber_mutex_unlock(&mtx);
    } else if (*s == 't') {
      if (fiber_mutex_trylock(&mtx)) {
        acquired(id, 1);
        critical(id);
        releasing(id);
        fiber_mutex_unlock(&mtx);
      } else {
        tryfailed(id);
      }
    }
  }
  return (void*)(intptr_t)(id + 100);
}

int harness_main(void) {
  shape = fmc_param("shape", 0);
  rt_start();
  fiber_mutex_init(&mtx);
  fmc_focus(&mtx, sizeof mtx);
  fmc_focus((void*)&cs_var, sizeof cs_var);
  int nf = 0;
  fiber_t* f[4];
  rt_pin_begin();
  fmc_begin();
  int gen = fmc_param("gen", 0);
  if (gen) {
    nf = fmc_param("fibers", 2);
    for (int i = 0; i < nf; i++) {
      int len = 1 + fmc_input(gen);
      for (int k = 0; k < len; k++) genbuf[i][k] = "LTt"[fmc_input(3)];
      cur[i] = genbuf[i];
    }
  } else {
    while (nf < 4 && scripts[shape][nf][0]) nf++;
    for (int i = 0; i < 4; i++) cur[i] = scripts[shape][i];
  }
  int order[8];
  rt_creation_order(nf, order);
  for (int i = 0; i < nf; i++) f[order[i]] = rt_create(order[i], STK, body, (void*)(intptr_t)order[i]);
  rt_pin_end();
  fmc_yield();
  for (int i = 0; i < nf; i++) {
    void* r = 0;
    if (fiber_join(f[i], &r) != FIBER_SUCCESS || r != (void*)(intptr_t)(i + 100)) fmc_fail("mutex harness: join of fiber %d failed", i);
  }
  if (cs_var != g_acq) fmc_fail("mutex: lost update: %d acquisitions but protected counter is %d", g_acq, cs_var);
  if (mtx.counter != 1) fmc_fail("mutex: counter is %d after all fibers finished (expected 1)", mtx.counter);
  if (mtx.waiters.head->next) fmc_fail("mutex: waiter list not empty at the end");
  fmc_obs(g_acq);
  rt_finish();
  return 0;
}
