// C04: fiber_join / fiber_tryjoin / fiber_detach against a finishing fiber.
// Scenarios (-Dsc):
//  1 F returns v, J joins              -> join succeeds with v
//  2 T loops tryjoin+yield             -> first success yields v, earlier attempts fail
//  3 D detaches while F finishes       -> detach ok, F reclaimed exactly once, nobody stranded
//  4 detach then join (F gated alive)  -> join fails
//  5 two joiners on a gated-alive F    -> exactly one blocks and gets v, the other gets an error
//  6 join after F finished (main yields first so F is usually already waiting for a joiner)
//  7 two tryjoins / 8 a join and a tryjoin race on a FINISHED fiber from two kernel threads -> exactly one wins
// (Two callers that may both still be running after the target was reclaimed are API misuse
//  - pthreads calls it undefined - and are not in the alphabet.)
// Oracle: returned value equality; success only after the ghost "function
// returned" mark; at most one successful joiner; fiber_context_destroy exactly
// once per finished fiber and only after (finished and (joined or detached))
// (checked through the heap shadow: any access to a reclaimed fiber_t, stack or
// list node is a violation, a double destroy is a double free); nobody stranded.
#include "rt_common.h"

static int sc;
static fiber_t* F;
static fiber_t* other[3];
static int g_returned, g_join_ok, g_gate;
static void* const VAL = (void*)0x5151;
static int g_detached, g_join_begun, g_destroyed;

// called by the --wrap observer when the runtime reclaims a fiber
void fmc_on_fiber_destroy(fiber_t* f) {
  if (f != F) return;
  g_destroyed++;
  if (!g_returned) fmc_fail("join: fiber reclaimed before its function returned");
  // the finished fiber is woken from inside fiber_join, so it may be reclaimed before the
  // joiner returns: "a join, tryjoin or detach on it has begun" is what can be required here
  if (!g_join_begun && !g_detached) fmc_fail("join: fiber reclaimed although no join, tryjoin or detach on it has even begun");
}

GHOST static void mark_returned(void) { g_returned = 1; }
GHOST static int returned(void) { return g_returned; }
GHOST static void join_result(int who, int ok, void* v, int final) {
  if (ok) {
    if (!g_returned) fmc_fail("join: %s by %d succeeded before the fiber's function returned", final ? "join" : "tryjoin", who);
    if (v != VAL) fmc_fail("join: %s by %d succeeded with result %p, expected %p", final ? "join" : "tryjoin", who, v, VAL);
    if (++g_join_ok > 1) fmc_fail("join: two joiners succeeded on the same fiber");
  }
  fmc_obs(who * 8 + ok * 2 + final);
}
GHOST static void mark_detached(void) { g_detached = 1; }
GHOST static void join_begins(void) { g_join_begun = 1; }
GHOST static int gate_open(void) { return g_gate; }
GHOST static void open_gate(void) { g_gate = 1; }

static void* f_body(void* p) {
  int gated = (int)(intptr_t)p;
  while (gated && !gate_open()) fiber_yield();
  mark_returned();
  return VAL;
}

static void* joiner(void* p) {
  int id = (int)(intptr_t)p;
  void* v = 0;
  join_begins();
  int ok = fiber_join(F, &v) == FIBER_SUCCESS;
  join_result(id, ok, v, 1);
  if (!ok) open_gate();
  return (void*)(intptr_t)(ok ? 1 : 2);
}
static void* tryjoiner(void* p) {
  int id = (int)(intptr_t)p;
  for (int i = 0; i < 1000000; i++) {
    void* v = 0;
    join_begins();
    int ok = fiber_tryjoin(F, &v) == FIBER_SUCCESS;
    join_result(id, ok, v, 0);
    if (ok) return (void*)1;
    fiber_yield();
  }
  return (void*)2;
}
// sc=7/8: two joiners race on a FINISHED fiber. Each makes exactly one attempt and then
// keeps its kernel thread busy (engine-level yield, no fiber switch) until both attempts
// are over, so the target - woken by the winner onto the winner's run queue - cannot run and
// be reclaimed while the other attempt is still in progress: no call is made on a dead handle.
static int g_arrived, g_attempted, g_racer_tid[2];
GHOST static void arrive(int id) { g_arrived++; g_racer_tid[id - 1] = fmc_tid(); }
GHOST static int arrived(void) { return g_arrived; }
GHOST static void attempted(void) { g_attempted++; }
GHOST static int attempts(void) { return g_attempted; }
static void* racer(void* p) {
  int id = (int)(intptr_t)p;
  int use_join = (sc == 8 && id == 1);
  arrive(id);
  while (arrived() < 2) fmc_yield();
  void* v = 0;
  join_begins();
  int ok = (use_join ? fiber_join(F, &v) : fiber_tryjoin(F, &v)) == FIBER_SUCCESS;
  join_result(id, ok, v, use_join);
  attempted();
  while (attempts() < 2) fmc_yield();
  return (void*)(intptr_t)(ok ? 1 : 2);
}
// -Dnoise=K: K more fibers that only yield a few times, so that a fiber which yields while it polls
// for its join partner is really queued (and can be stolen) instead of continuing at once
static void* jnoise(void* p) {
  for (int k = 0; k < 3; k++) fiber_yield();
  return 0;
}
// sc=9: the target leaves a runnable companion on its own kernel thread just before it finishes, so
// when it has to poll for its joiner (joiner between its state exchange and its context switch)
// its yield really queues it - and an idle kernel thread may steal it in the middle of the poll
static void* f_body_companion(void* p) {
  fiber_detach(fiber_create(STK, jnoise, 0));
  mark_returned();
  return VAL;
}
static void* detacher(void* p) {
  mark_detached();
  int r = fiber_detach(F);
  if (r != FIBER_SUCCESS) fmc_fail("detach: first detach of a live or finished fiber failed");
  return (void*)1;
}

static void* jres(fiber_t* f) {
  void* r = 0;
  if (fiber_join(f, &r) != FIBER_SUCCESS) fmc_fail("join harness: helper fiber could not be joined");
  return r;
}

// "reclaimed once" has a liveness half: when every kernel thread has gone idle, a fiber whose function
// returned and which was joined successfully or detached must have been reclaimed (a finished fiber
// that parks itself waiting for a joiner that can no longer come is a leak of its stack and record)
static int end_hook(void) {
  if (fmc_oracle_mask() & FMC_O_WAKES) {
    const char* m = fmc_wrap_end_check();
    if (m) fmc_fail("%s", m);
  }
  if (g_returned && (g_join_ok || g_detached) && !g_destroyed)
    fmc_fail("join: the fiber finished and was %s, but it was never reclaimed (every kernel thread is idle)", g_detached ? "detached" : "joined");
  fmc_end();
  return 0;
}

int harness_main(void) {
  sc = fmc_param("sc", 1);
  rt_start();
  rt_pin_begin();
  fmc_begin();
  for (int k = 0; k < fmc_param("noise", 0); k++) fiber_detach(fiber_create(STK, jnoise, 0));
  if (sc != 9) rt_pin_end();
  switch (sc) {
    case 1:
      F = fiber_create(STK, f_body, 0); fmc_focus(F, sizeof *F);
      other[0] = fiber_create(STK, joiner, (void*)1);
      fmc_yield();
      if (jres(other[0]) != (void*)1) fmc_fail("join: joiner failed on a joinable fiber");
      break;
    case 2:
      F = fiber_create(STK, f_body, 0); fmc_focus(F, sizeof *F);
      other[0] = fiber_create(STK, tryjoiner, (void*)1);
      fmc_yield();
      if (jres(other[0]) != (void*)1) fmc_fail("tryjoin: never succeeded");
      break;
    case 3:
      F = fiber_create(STK, f_body, 0); fmc_focus(F, sizeof *F);
      other[0] = fiber_create(STK, detacher, (void*)1);
      fmc_yield();
      jres(other[0]);
      break;
    case 4: {
      F = fiber_create(STK, f_body, (void*)1); fmc_focus(F, sizeof *F);
      mark_detached();
      if (fiber_detach(F) != FIBER_SUCCESS) fmc_fail("detach failed");
      void* v = (void*)1;
      int ok = fiber_join(F, &v) == FIBER_SUCCESS;
      if (ok) fmc_fail("join: joining a detached fiber succeeded");
      if (fiber_tryjoin(F, &v) == FIBER_SUCCESS) fmc_fail("tryjoin: joining a detached fiber succeeded");
      if (fiber_detach(F) == FIBER_SUCCESS) fmc_fail("detach: second detach succeeded");
      open_gate();
      break;
    }
    case 5: {
      F = fiber_create(STK, f_body, (void*)1); fmc_focus(F, sizeof *F);
      other[0] = fiber_create(STK, joiner, (void*)1);
      other[1] = fiber_create(STK, joiner, (void*)2);
      fmc_yield();
      // the winner blocks until F finishes; the loser gets an error while F is still
      // alive (gate closed) and then opens the gate
      void* r0 = jres(other[0]);
      void* r1 = jres(other[1]);
      if (!((r0 == (void*)1 && r1 == (void*)2) || (r0 == (void*)2 && r1 == (void*)1)))
        fmc_fail("join: two joiners on one fiber: results %p %p (expected exactly one success)", r0, r1);
      break;
    }
    case 6: {
      F = fiber_create(STK, f_body, 0); fmc_focus(F, sizeof *F);
      fiber_yield();
      fmc_yield();
      void* v = 0;
      join_begins();
      int ok = fiber_join(F, &v) == FIBER_SUCCESS;
      join_result(0, ok, v, 1);
      if (!ok) fmc_fail("join: joining a finished fiber failed");
      break;
    }
    case 9:
      F = rt_create(0, STK, f_body_companion, 0); fmc_focus(F, sizeof *F);
      other[0] = rt_create(1, STK, joiner, (void*)1);
      rt_pin_end();
      fmc_yield();
      if (jres(other[0]) != (void*)1) fmc_fail("join: joiner failed on a joinable fiber");
      break;
    case 7:
    case 8: {
      F = fiber_create(STK, f_body, 0); fmc_focus(F, sizeof *F);
      for (int i = 0; i < 50 && !returned(); i++) fiber_yield();  // F runs to completion and waits for a joiner
      if (!returned()) fmc_fail("join harness: target did not finish");
      other[0] = fiber_create(STK, racer, (void*)1);
      while (arrived() < 1) fmc_yield();  // racer 1 is now running on the OTHER kernel thread and stays there
      other[1] = fiber_create(STK, racer, (void*)2);
      void* r0 = jres(other[0]);
      void* r1 = jres(other[1]);
      if (g_racer_tid[0] == g_racer_tid[1]) fmc_fail("join harness: racers were not placed on different kernel threads");
      if (r0 == (void*)1 && r1 == (void*)1) fmc_fail("join: two joiners both succeeded on one fiber");
      if (r0 != (void*)1 && r1 != (void*)1) fmc_fail("join: neither of two joiners obtained the finished fiber's result");
      break;
    }
  }
  rt_park_until_quiescent(end_hook);
  return 0;
}
