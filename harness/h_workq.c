// C17: work_queue under raw threads. Each thread pushes its items; a thread
// told WORK_QUEUE_START_WORKING drains with get_work until WORK_QUEUE_EMPTY.
// Oracle, computed from the exact log of atomic operations on in_count
// (decision instants) interleaved with harness notes:
//   * worker episodes alternate START, EMPTY, START, ... and each EMPTY belongs
//     to the thread that was told to start (never two workers at once),
//   * every item is handed out exactly once,
//   * at each EMPTY decision every item whose push had already announced itself
//     (in_count incremented earlier) has been handed out,
//   * when all threads have returned every pushed item was handed out.
#include "raw_common.h"
#include "work_queue.h"

static work_queue_t wq;
static int shape;
enum { N_PUSHRET = 1, N_HANDOUT = 2, N_EMPTYRET = 3, N_PUSHCALL = 4 };
static work_queue_item_t items[3][3];
static int g_handed[40];

GHOST static void note(int code, uint64_t v) { fmc_watch_note(code, v); }

static const int counts[][3] = {{2, 2, 0}, {1, 1, 1}, {2, 1, 0}, {3, 1, 0}, {2, 1, 1}, {3, 0, 0}};
// -Dsession=1: the run starts in the MIDDLE of a long worker session: 2^32-2 items have been pushed
// and handed out since the queue was last found empty (in_count == out_count == 2^32-2, fifo
// empty) and thread 2 is the active worker, about to ask for more work. The ticket counter is not
// a depth: it only returns to 0 when the worker finds the queue drained, so any number of items
// means any value of it.
static int session;

static void* body(void* p) {
  int t = (int)(intptr_t)p;
  if (session && t == 2) {
    work_queue_item_t* out;
    while (work_queue_get_work(&wq, &out) == WORK_QUEUE_MORE_WORK) note(N_HANDOUT, (uint64_t)(intptr_t)out->data);
    note(N_EMPTYRET, 0);
  }
  for (int i = 0; i < counts[shape][t - 1]; i++) {
    int id = t * 10 + i;
    work_queue_item_t* it = &items[t - 1][i];
    it->data = (void*)(intptr_t)id;
    note(N_PUSHCALL, id);
    int r = work_queue_push(&wq, it);
    note(N_PUSHRET, (uint64_t)id * 2 + (r == WORK_QUEUE_START_WORKING));
    if (r == WORK_QUEUE_START_WORKING) {
      work_queue_item_t* out;
      while (work_queue_get_work(&wq, &out) == WORK_QUEUE_MORE_WORK) note(N_HANDOUT, (uint64_t)(intptr_t)out->data);
      note(N_EMPTYRET, 0);
    }
  }
  raw_set_done(t);
  return 0;
}

GHOST static void check(int total) {
  fmc_wev_t* l = fmc_watch_log();
  int n = fmc_watch_n();
  int last_atomic[4] = {-1, -1, -1, -1};
  int worker = session ? 2 : -1;  // thread currently in a worker episode (by decision instants)
  // decision events ordered by the instant of the deciding atomic operation
  struct { int idx, thread, kind; } dec[64];
  int ndec = 0;
  int announce_idx[40], handout_idx[40];
  for (int i = 0; i < 40; i++) announce_idx[i] = handout_idx[i] = -1;
  for (int i = 0; i < n; i++) {
    fmc_wev_t* e = &l[i];
    int t = e->thread;
    if (e->kind == 'A') last_atomic[t] = i;
    if (e->kind != 'N') continue;
    if (e->off == N_PUSHRET) {
      int id = (int)(e->oldv / 2);
      announce_idx[id] = last_atomic[t];
      if (e->oldv & 1) { dec[ndec].idx = last_atomic[t]; dec[ndec].thread = t; dec[ndec++].kind = 1; }
    } else if (e->off == N_HANDOUT) {
      int id = (int)e->oldv;
      if (id < 10 || id >= 40) fmc_fail("work queue: handed out an item that was never pushed (%d)", id);
      if (++g_handed[id] > 1) fmc_fail("work queue: item %d handed out twice", id);
      handout_idx[id] = i;
    } else if (e->off == N_EMPTYRET) {
      dec[ndec].idx = last_atomic[t]; dec[ndec].thread = t; dec[ndec++].kind = 0;
    }
  }
  // sort decisions by instant
  for (int i = 0; i < ndec; i++)
    for (int j = i + 1; j < ndec; j++)
      if (dec[j].idx < dec[i].idx) { __typeof__(dec[0]) tmp = dec[i]; dec[i] = dec[j]; dec[j] = tmp; }
  for (int i = 0; i < ndec; i++) {
    if (dec[i].kind == 1) {
      if (worker != -1) fmc_fail("work queue: T%d told to start working while T%d is still the active worker", dec[i].thread, worker);
      worker = dec[i].thread;
    } else {
      if (worker != dec[i].thread) fmc_fail("work queue: T%d told EMPTY but the active worker is T%d", dec[i].thread, worker);
      worker = -1;
      for (int id = 10; id < 40; id++)
        if (announce_idx[id] >= 0 && announce_idx[id] < dec[i].idx && (handout_idx[id] < 0 || handout_idx[id] > dec[i].idx))
          fmc_fail("work queue: worker told EMPTY while item %d (pushed earlier) had not been handed out", id);
    }
  }
  int handed = 0;
  for (int id = 10; id < 40; id++) handed += g_handed[id];
  if (handed != total) fmc_fail("work queue: %d items pushed, %d handed out: an item is stranded with no active worker", total, handed);
  if (worker != -1) fmc_fail("work queue: a worker episode never ended");
  for (int i = 0; i < n; i++)
    if (l[i].kind == 'N' && l[i].off != N_PUSHCALL) fmc_obs(l[i].thread * 1000 + l[i].off * 100 + l[i].oldv);
}

int harness_main(void) {
  shape = fmc_param("shape", 0);
  session = fmc_param("session", 0);
  work_queue_init(&wq);
  if (session) wq.in_count = wq.out_count = 4294967294LL;
  fmc_watch((void*)&wq.in_count);
  int nt = counts[shape][2] ? 3 : 2;
  raw_run(nt, body);
  check(counts[shape][0] + counts[shape][1] + counts[shape][2]);
  if (wq.in_count != 0) fmc_fail("work queue: in_count=%ld at the end", (long)wq.in_count);
  fmc_end();
}
