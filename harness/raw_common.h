// helpers for raw-thread harnesses: 2-3 pthreads operating on one structure
#ifndef RAW_COMMON_H
#define RAW_COMMON_H
#include <pthread.h>
#include <stdint.h>
#include <stdlib.h>
#include <string.h>

#include "fmc.h"

static int raw_done[4];
static int raw_n;
GHOST static void raw_set_done(int t) { raw_done[t] = 1; }
GHOST static int raw_all_done(void) {
  for (int i = 1; i <= raw_n; i++)
    if (!raw_done[i]) return 0;
  return 1;
}

// run n threads (ids 1..n) with the given bodies inside the exploration window and wait for them
static inline void raw_run(int n, void* (*body)(void*)) {
  pthread_t th[3];
  raw_n = n;
  for (int i = 1; i <= n; i++) pthread_create(&th[i - 1], 0, body, (void*)(intptr_t)i);
  fmc_begin();
  fmc_wait_threads();
  if (!raw_all_done()) fmc_fail("harness: a thread exited without finishing its script");
}

#endif
