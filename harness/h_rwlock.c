// C07: fiber_rwlock under the real runtime.
// 2-4 fibers run scripts over {R rdlock, W wrlock, r tryrdlock, w trywrlock}
// (each followed by the matching unlock when acquired). Oracle: ghost
// occupancy at every acquisition (at most one writer, a writer never with a
// reader), the try variants never switch fibers, nobody stays blocked (main
// joins every fiber), lock word back to 0 at the end. Which waiting reader a
// hand-off releases is not checked: readers are interchangeable.
#include "fiber_rwlock.h"
#include "rt_common.h"

static fiber_rwlock_t L;
static int shape;
static int g_readers, g_writers;
static volatile int data;  // written by writers, read by readers

GHOST static void rd_acq(int id, int t) {
  if (g_writers) fmc_fail("rwlock: fiber %d acquired a read lock (%s) while a writer holds the lock", id, t ? "tryrdlock" : "rdlock");
  g_readers++;
  fmc_obs(id * 4 + t);
}
GHOST static void rd_rel(void) { g_readers--; }
GHOST static void wr_acq(int id, int t) {
  if (g_writers) fmc_fail("rwlock: fiber %d acquired the write lock (%s) while another writer holds it", id, t ? "trywrlock" : "wrlock");
  if (g_readers) fmc_fail("rwlock: fiber %d acquired the write lock (%s) while %d reader(s) hold the lock", id, t ? "trywrlock" : "wrlock", g_readers);
  g_writers++;
  fmc_obs(id * 4 + 2 + t);
}
GHOST static void wr_rel(void) { g_writers--; }
static int g_expect;  // increments of `data` performed under the write lock
GHOST static void wrote(int n) { g_expect += n; }
GHOST static int expected(void) { return g_expect; }

static const char* scripts[][4] = {
    {"W", "R", ""},      // 0
    {"W", "R", "R"},     // 1: batch of readers handed off by the writer
    {"R", "W", "R"},     // 2
    {"W", "W", "R"},     // 3
    {"R", "w", "r"},     // 4
    {"WR", "RW", ""},    // 5
    {"W", "r", "w"},     // 6
    {"RR", "W", ""},     // 7
    {"y", "W", "R"},     // 8: a reader that yields inside its critical section (third party acts while it holds)
    {"y", "R", "W"},     // 9
    {"z", "R", "W"},     // 10: a writer that yields inside its critical section
    {"y", "y", "z", "R"},  // 11: two overlapping readers leave together, a writer gets in, a fourth fiber queues behind it
    {"y", "y", "W", "W"},  // 12
    {"y", "R", "z", "W"},  // 13
    {"y", "W", "R", "R"},  // 14
    {"R", "R", "z", "R"},  // 15
    {"R", "z", "R", "R"},  // 16
    {"z", "R", "R", "R"},  // 17
    {"R", "R", "z", "W"},  // 18
    {"R", "y", "z", "R"},  // 19
    // '+' = create the next fiber of the set now, on my own kernel thread (late arrivals: a fiber that
    // does not exist yet cannot queue early, which a pre-emption budget would otherwise have to arrange)
    {"y", "y+", "+z", "R"},  // 20: two readers leave together; then a writer arrives, then a reader behind it
    {"y", "y+", "+z", "W"},  // 21
    {"y", "y+", "+z", "r"},  // 22
    {"z", "z+", "+y", "W"},  // 23: two writers hand over; then a reader arrives, then a writer behind it
    {"y", "W+", "+y", "W"},  // 24
};

// -Dgen=K -Dfibers=F: every program of F fibers with 1..K operations each over {R,W,r,w,y,z} is
// enumerated as an input instead of one of the shapes above
static char genbuf[4][8];
static const char* cur[4];

static fiber_t* f[4];
static int g_created, g_total;
static void* body(void* p);
GHOST static int next_to_create(void) { return g_created < g_total ? g_created++ : -1; }
GHOST static void set_f(int i, fiber_t* x) { f[i] = x; }
GHOST static fiber_t* get_f(int i) { return f[i]; }

static void* body(void* p) {
  int id = (int)(intptr_t)p;
  for (const char* s = cur[id]; *s; s++) {
    if (*s == '+') {
      int i = next_to_create();
      if (i >= 0) set_f(i, fiber_create(STK, body, (void*)(intptr_t)i));
    } else if (*s == 'R') {
      fiber_rwlock_rdlock(&L);
      rd_acq(id, 0);
      int v = data;
      (void)v;
      rd_rel();
      fiber_rwlock_rdunlock(&L);
    } else if (*s == 'y') {
      fiber_rwlock_rdlock(&L);
      rd_acq(id, 0);
      fiber_yield();
      int v = data;  // still inside: a pre-emption point of -focus runs (data is a focus range)
      (void)v;
      rd_rel();
      fiber_rwlock_rdunlock(&L);
    } else if (*s == 'z') {
      fiber_rwlock_wrlock(&L);
      wr_acq(id, 0);
      data = data + 1;
      fiber_yield();
      data = data + 1;  // still inside after the yield (pre-emption point of -focus runs)
      wrote(2);
      wr_rel();
      fiber_rwlock_wrunlock(&L);
    } else if (*s == 'W') {
      fiber_rwlock_wrlock(&L);
      wr_acq(id, 0);
      data = data + 1;
      wrote(1);
      wr_rel();
      fiber_rwlock_wrunlock(&L);
    } else {
      int t = fmc_tid();
      long sw = fmc_thread_switches(t);
      int ok = (*s == 'r' ? fiber_rwlock_tryrdlock(&L) : fiber_rwlock_trywrlock(&L)) == FIBER_SUCCESS;
      if (fmc_tid() != t || fmc_thread_switches(t) != sw) fmc_fail("rwlock: a try variant switched fibers (it must never block)");
      if (ok && *s == 'r') { rd_acq(id, 1); rd_rel(); fiber_rwlock_rdunlock(&L); }
      if (ok && *s == 'w') { wr_acq(id, 1); data = data + 1; wrote(1); wr_rel(); fiber_rwlock_wrunlock(&L); }
    }
  }
  return 0;
}

int harness_main(void) {
  shape = fmc_param("shape", 0);
  rt_start();
  fiber_rwlock_init(&L);
  fmc_focus(&L, sizeof L);
  fmc_focus((void*)&data, sizeof data);
  int nf = 0;
  rt_pin_begin();
  fmc_begin();
  int gen = fmc_param("gen", 0);
  if (gen) {
    nf = fmc_param("fibers", 2);
    for (int i = 0; i < nf; i++) {
      int len = 1 + fmc_input(gen);
      for (int k = 0; k < len; k++) genbuf[i][k] = "RWrwyz"[fmc_input(6)];
      cur[i] = genbuf[i];
    }
  } else {
    for (; nf < 4 && scripts[shape][nf] && scripts[shape][nf][0]; nf++) {}
    for (int i = 0; i < 4; i++) cur[i] = scripts[shape][i] ? scripts[shape][i] : "";
  }
  int late = 0;  // the last `late` fibers are created by '+' steps of the others, in the order those execute
  for (int i = 0; i < nf; i++)
    for (const char* s = cur[i]; *s; s++) late += *s == '+';
  if (late >= nf) late = nf - 1;
  g_total = nf;
  g_created = nf - late;
  int order[8];
  rt_creation_order(nf - late, order);
  for (int i = 0; i < nf - late; i++) f[order[i]] = rt_create(order[i], STK, body, (void*)(intptr_t)order[i]);
  rt_pin_end();
  fmc_yield();
  for (int i = 0; i < nf; i++) {
    if (!get_f(i)) fmc_fail("rwlock harness: fiber %d was not created before fiber %d finished (script error)", i, i - 1);
    if (fiber_join(get_f(i), 0) != FIBER_SUCCESS) fmc_fail("rwlock harness: join failed");
  }
  if (data != expected()) fmc_fail("rwlock: lost update: %d increments were made under the write lock but the protected variable is %d (a writer did not see its predecessor's writes)", expected(), data);
  if (L.state.blob != 0) fmc_fail("rwlock: lock word is %lx after everybody unlocked", (unsigned long)L.state.blob);
  if (L.read_waiters.head->next || L.write_waiters.head->next) fmc_fail("rwlock: a waiter list is not empty at the end");
  rt_finish();
  return 0;
}
