// C11: channels and fiber_signal under the real runtime.
//  ch=0 bounded channel + signal   ch=1 bounded channel, spinning receiver
//  ch=2 unbounded MPSC + signal    ch=3 unbounded single-producer + signal
//  ch=4 multi channel (2 senders, 2 receivers, senders block when full)
//  ch=5 bare fiber_signal: raises vs waits
//  ch=6 fiber_multi_signal (C20): several waiters vs raises   ch=7 same with raise_strict
// Oracle: received multiset == sent multiset (an overwritten message is a
// missing one), per-sender order (single receiver), bounded channels never
// hold more than their capacity (sends_returned - receives_begun <= capacity at
// every step), nobody stranded (main joins everybody). fiber_signal: the
// history must linearize as a binary flag with coalescing raises, and a waiter
// may be blocked at the end only if the flag is down.
#include "fiber_channel.h"
#include "rt_common.h"
#undef _FIBER_CHANNEL_H_ /* the two channel headers share one include guard */
#include "fiber_multi_channel.h"

static int ch, shape;
static fiber_signal_t sig;
static fiber_bounded_channel_t* bc;
static fiber_unbounded_channel_t uc;
static fiber_unbounded_sp_channel_t usc;
static fiber_multi_channel_t* mc;
static int capacity = 2;

static int g_sent[64], g_recv[64], g_sends_ret, g_recv_begun, g_lastseq[4], g_single_receiver = 1;

GHOST static void sent(int v) { g_sent[v]++; }
GHOST static void send_returned(void) {
  g_sends_ret++;
  if ((ch == 0 || ch == 1 || ch == 4) && g_sends_ret - g_recv_begun > capacity)
    fmc_fail("channel: capacity exceeded: %d sends have returned but only %d receives have begun (capacity %d)", g_sends_ret, g_recv_begun, capacity);
}
GHOST static void recv_begin(void) { g_recv_begun++; }
GHOST static void received(int who, int v) {
  if (v <= 0 || v >= 64 || !g_sent[v]) fmc_fail("channel: received a message (%d) that was never sent", v);
  if (++g_recv[v] > 1) fmc_fail("channel: message %d delivered twice", v);
  int snd = v / 16, seq = v % 16;
  if (g_single_receiver) {
    if (seq <= g_lastseq[snd]) fmc_fail("channel: messages of sender %d arrived out of order (%d after %d)", snd, seq, g_lastseq[snd]);
    g_lastseq[snd] = seq;
  }
  fmc_obs(who * 64 + v);
}

static void do_send(int v) {
  sent(v);
  if (ch == 0 || ch == 1) fiber_bounded_channel_send(bc, (void*)(intptr_t)v);
  else if (ch == 2) {
    fiber_unbounded_channel_message_t* m = malloc(sizeof *m);
    fmc_focus(m, sizeof *m);  // the link fields of the queue nodes belong to the channel
    m->data = (void*)(intptr_t)v;
    fiber_unbounded_channel_send(&uc, m);
  } else if (ch == 3) {
    fiber_unbounded_sp_channel_message_t* m = malloc(sizeof *m);
    fmc_focus(m, sizeof *m);
    m->data = (void*)(intptr_t)v;
    fiber_unbounded_sp_channel_send(&usc, m);
  } else fiber_multi_channel_send(mc, (void*)(intptr_t)v);
  send_returned();
}
static int do_recv(void) {
  recv_begin();
  if (ch == 0 || ch == 1) return (int)(intptr_t)fiber_bounded_channel_receive(bc);
  if (ch == 2) {
    fiber_unbounded_channel_message_t* m = fiber_unbounded_channel_receive(&uc);
    int v = (int)(intptr_t)m->data;
    free(m);
    return v;
  }
  if (ch == 3) {
    fiber_unbounded_sp_channel_message_t* m = fiber_unbounded_sp_channel_receive(&usc);
    int v = (int)(intptr_t)m->data;
    free(m);
    return v;
  }
  return (int)(intptr_t)fiber_multi_channel_receive(mc);
}

// per shape: messages per sender (up to 2 senders) and receives per receiver (up to 2)
static int genplan[5];
static const int plan[][5] = {
    {2, 0, 2, 0},  // 0: 1 sender x2
    {1, 1, 2, 0},  // 1: 2 senders x1
    {2, 1, 3, 0},  // 2: 2 senders, 3 messages (bounded: a sender meets a full buffer)
    {3, 0, 3, 0},  // 3: 1 sender x3 through capacity 2
    {2, 1, 2, 1},  // 4: multi channel: 2 senders, 2 receivers
    {3, 0, 2, 1},  // 5: multi channel: 1 sender x3, 2 receivers
    {2, 2, 5, 0, 1},  // 6: multi channel: 3 senders (last column), one receiver: several senders parked on a full channel
    {3, 3, 6, 0, 0},  // 7
    {1, 2, 6, 0, 3},  // 8
};
#define PLAN(i) (genplan[2] ? genplan[i] : plan[shape][i])
static void* sender(void* p) {
  int id = (int)(intptr_t)p;
  for (int k = 1; k <= PLAN(id == 3 ? 4 : id - 1); k++) do_send(id * 16 + k);
  return 0;
}
static void* receiver(void* p) {
  int id = (int)(intptr_t)p;
  for (int k = 0; k < PLAN(2 + id); k++) received(id, do_recv());
  return 0;
}

// ---- bare signal --------------------------------------------------------------
enum { OP_RAISE = 1, OP_WAIT = 2, OP_END = 3 };
static int g_waits_pending;
static int sigspec(void* st, const fmc_op_t* op, int ret_known) {
  uint8_t* flag = st;
  if (op->kind == OP_RAISE) { *flag = 1; return 1; }
  if (op->kind == OP_WAIT) {
    if (!ret_known) return 1;  // a wait that never returned takes no effect
    if (!*flag) return 0;
    *flag = 0;
    return 1;
  }
  return !(op->arg && *flag);  // END: a waiter may be left blocked only with the flag down
}
static int nraise, nwait;
static fiber_multi_signal_t msig;
static int g_woken;
GHOST static void woke(int r) { g_woken += r; }
static void* raiser(void* p) {
  for (int k = 0; k < nraise; k++) {
    int op = fmc_op_begin(OP_RAISE, 0);
    if (ch == 5) fiber_signal_raise(&sig);
    else if (ch == 6) woke(fiber_multi_signal_raise(&msig));
    else { fiber_multi_signal_raise_strict(&msig); woke(1); }
    fmc_op_end(op, 0);
  }
  return 0;
}
static void* waiter(void* p) {
  for (int k = 0; k < nwait; k++) {
    int op = fmc_op_begin(OP_WAIT, 0);
    if (ch == 5) fiber_signal_wait(&sig);
    else fiber_multi_signal_wait(&msig);
    fmc_op_end(op, 0);
  }
  return 0;
}
static int sig_quiescent(void) {
  fmc_op_t* o = fmc_ops();
  int pending = 0;
  for (int i = 0; i < fmc_nops(); i++)
    if (o[i].kind == OP_WAIT && !o[i].resp) pending++;
  // raise_strict spins on its kernel thread until a waiter shows up. When every kernel thread is
  // occupied by such a spinner the fibers that would wait can never run: that is a property of the
  // PROGRAM (more strict raisers than spare kernel threads), not of the signal, and says nothing.
  if (ch == 7) {
    int spinning = 0;
    for (int i = 0; i < fmc_nops(); i++)
      if (o[i].kind == OP_RAISE && !o[i].resp) spinning++;
    if (spinning >= fmc_param("N", 2)) fmc_end();
  }
  int e = fmc_op_begin(OP_END, pending);
  fmc_op_end(e, 0);
  uint8_t flag = 0;
  if (!fmc_linearizable(sigspec, &flag, 1)) {
    char h[400];
    fmc_history_dump(h, sizeof h);
    fmc_fail("signal: history is not a legal binary-flag history (a wait returned without a raise, or a waiter is stranded although a raise came after its wait began): %s", h);
  }
  if (ch >= 6) {
    int returned = 0;
    for (int i = 0; i < fmc_nops(); i++)
      if (o[i].kind == OP_WAIT && o[i].resp) returned++;
    if (g_woken > returned) fmc_fail("multi signal: raises reported waking %d fibers but only %d waits returned", g_woken, returned);
    if (pending && msig.data.head == FIBER_MULTI_SIGNAL_RAISED) fmc_fail("multi signal: a waiter is blocked while the signal is in the raised state");
    if (!pending && msig.data.head && msig.data.head != FIBER_MULTI_SIGNAL_RAISED) fmc_fail("multi signal: nobody is waiting but the waiter list is not empty (a fiber that is not waiting is on the list)");
  }
  fmc_history_obs();
  fmc_end();
  return 0;
}

int harness_main(void) {
  ch = fmc_param("ch", 0);
  shape = fmc_param("shape", 0);
  rt_start();
  fiber_signal_init(&sig);
  fmc_focus(&sig, sizeof sig);
  fmc_focus(&msig, sizeof msig);
  fmc_focus(&uc, sizeof uc);
  fmc_focus(&usc, sizeof usc);
  if (ch == 0) bc = fiber_bounded_channel_create(1, &sig);
  if (ch == 1) bc = fiber_bounded_channel_create(1, 0);
  if (bc) fmc_focus(bc, sizeof *bc + 2 * sizeof(void*));
  if (ch == 2) { fiber_unbounded_channel_init(&uc, &sig); fmc_focus(uc.queue.tail, sizeof(mpsc_fifo_node_t)); }
  if (ch == 3) { fiber_unbounded_sp_channel_init(&usc, &sig); fmc_focus(usc.queue.tail, sizeof(spsc_node_t)); }
  if (ch == 4) { mc = fiber_multi_channel_create(1); g_single_receiver = PLAN(3) == 0; fmc_focus(mc, sizeof *mc + 2 * sizeof(void*)); }
  fmc_begin();
  if (ch >= 5) {
    nraise = fmc_param("raises", 2);
    nwait = fmc_param("waits", ch == 5 ? 2 : 1);
    fiber_multi_signal_init(&msig);
    // keep=1 (default): the fibers stay joinable and are therefore never reclaimed during
    // the run - fiber_multi_signal_raise reads head->next of a waiter node it may have lost
    // the race for (documented TODO in fiber_signal.h); with keep=0 the fibers are detached
    // and reclaimed as soon as they finish, which is what the C01 check explores.
    int keep = fmc_param("keep", 1);
    fiber_t* g[4];
    int ng = 0;
    g[ng++] = fiber_create(STK, raiser, 0);
    g[ng++] = fiber_create(STK, waiter, 0);
    if (ch >= 6 && fmc_param("waiters", 2) > 1) g[ng++] = fiber_create(STK, waiter, 0);
    if (ch >= 6 && fmc_param("raisers", 1) > 1) g[ng++] = fiber_create(STK, raiser, 0);
    if (!keep)
      for (int i = 0; i < ng; i++) fiber_detach(g[i]);
    rt_park_until_quiescent(sig_quiescent);
  }
  fiber_t* f[6];
  int nf = 0;
  int rlast = 0;
  // -Dgen=K -Dsenders=S: every program of S senders with 1..K messages each and one receiver that takes
  // them all, the receiver created before or after the senders: enumerated as cost-free inputs
  int gen = fmc_param("gen", 0);
  if (gen) {
    int S = fmc_param("senders", 2), total = 0;
    for (int i = 0; i < S; i++) total += genplan[i == 2 ? 4 : i] = 1 + fmc_input(gen);
    genplan[2] = total;
    rlast = fmc_input(2);
    g_single_receiver = 1;
  }
  if (!rlast) f[nf++] = fiber_create(STK, receiver, (void*)0);
  if (PLAN(3)) f[nf++] = fiber_create(STK, receiver, (void*)1);
  f[nf++] = fiber_create(STK, sender, (void*)1);
  if (PLAN(1)) f[nf++] = fiber_create(STK, sender, (void*)2);
  if (PLAN(4)) f[nf++] = fiber_create(STK, sender, (void*)3);
  if (rlast) f[nf++] = fiber_create(STK, receiver, (void*)0);
  fmc_yield();
  for (int i = 0; i < nf; i++)
    if (fiber_join(f[i], 0) != FIBER_SUCCESS) fmc_fail("channel harness: join failed");
  for (int v = 0; v < 64; v++)
    if (g_sent[v] != g_recv[v]) fmc_fail("channel: message %d was sent %d time(s) and received %d time(s)", v, g_sent[v], g_recv[v]);
  rt_finish();
  return 0;
}
