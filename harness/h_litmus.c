// engine self-test: store buffering litmus (SB). Under SC r1==0&&r2==0 is impossible;
// under x86-TSO it is possible. mode 0: atomics (release/acquire), mode 1: plain volatile.
#include <stdatomic.h>
#include "raw_common.h"
static _Atomic int ax, ay;
static volatile int px, py;
static int r1, r2, mode;
GHOST static void setr(int which, int v) { if (which == 1) r1 = v; else r2 = v; }
static void* body(void* p) {
  int t = (int)(intptr_t)p;
  if (mode == 0) {
    if (t == 1) { atomic_store_explicit(&ax, 1, memory_order_release); setr(1, atomic_load_explicit(&ay, memory_order_acquire)); }
    else { atomic_store_explicit(&ay, 1, memory_order_release); setr(2, atomic_load_explicit(&ax, memory_order_acquire)); }
  } else {
    if (t == 1) { px = 1; setr(1, py); } else { py = 1; setr(2, px); }
  }
  raw_set_done(t);
  return 0;
}
int harness_main(void) {
  mode = fmc_param("mode", 0);
  r1 = r2 = -1;
  raw_run(2, body);
  if (r1 == 0 && r2 == 0) fmc_fail("litmus SB: r1==0 && r2==0 observed (store buffering)");
  fmc_obs(r1 * 2 + r2);
  fmc_end();
}
