// C19: fiber_context.c - sequential, exhaustive over programs.
// A "program" is a walk over up to three created contexts plus the thread's own
// context: symbols 0..3 = switch to context k (created on first use by whoever
// is running), 4,5 = destroy context 1,2 if it exists and is not running (it is
// re-created fresh when targeted again). The first two symbols are enumerated as
// inputs (one execution each), the remaining ones inside the execution.
// Every switch goes through an assembly shim that plants a unique pattern
// (derived from context id and step) in rbx, rbp, r12-r15 and in stack slots
// around the call, calls fiber_context_swap and, when the context is resumed
// (possibly much later), compares all six registers, the stack pointer and the
// stack slots. A fresh context must start its function with the given argument,
// a correctly aligned stack pointer inside its own stack. At the end every
// context is destroyed and the allocation balance (malloc/free or mmap/munmap,
// with matching sizes) must be back to where it started; a double release is a
// double free / unknown munmap.
// Register VALUES are not enumerated: the switch moves registers without
// inspecting them, so distinct sentinels per (context, step, register) decide it.
// Built once per stack strategy / back-end (see checks.HARNESSES).
#include <pthread.h>
#include <stdint.h>
#include <stdlib.h>
#include <string.h>
#include <sys/mman.h>
#include <sys/syscall.h>
#include <unistd.h>

#include "fiber_context.h"
#include "fmc.h"

// long swap_checked(from, to, tag, rsp_slot): 0 = everything preserved, else bit mask
extern long swap_checked(fiber_context_t* from, fiber_context_t* to, uint64_t tag, uint64_t* rsp_slot);
__asm__(
    ".text\n.globl swap_checked\n.type swap_checked,@function\nswap_checked:\n"
    "  pushq %rbp\n  pushq %rbx\n  pushq %r12\n  pushq %r13\n  pushq %r14\n  pushq %r15\n"
    "  subq $40, %rsp\n"
    "  movq %rdx, 0(%rsp)\n"
    "  movq %rdx, %rax\n  xorq $0x5a5a5a5a, %rax\n  movq %rax, 8(%rsp)\n  notq %rax\n  movq %rax, 16(%rsp)\n"
    "  movq %rcx, 24(%rsp)\n  movq %rdx, 32(%rsp)\n"
    "  movq %rsp, (%rcx)\n"
    "  leaq 1(%rdx), %rbx\n  leaq 2(%rdx), %rbp\n  leaq 3(%rdx), %r12\n  leaq 4(%rdx), %r13\n  leaq 5(%rdx), %r14\n  leaq 6(%rdx), %r15\n"
    "  call fiber_context_swap\n"
    "  xorl %eax, %eax\n"
    "  movq 24(%rsp), %rcx\n"
    "  cmpq (%rcx), %rsp\n  je 1f\n  orq $128, %rax\n1:\n"
    "  movq 0(%rsp), %rdx\n"
    "  cmpq 32(%rsp), %rdx\n  je 1f\n  orq $256, %rax\n1:\n"
    "  leaq 1(%rdx), %rcx\n  cmpq %rcx, %rbx\n  je 1f\n  orq $1, %rax\n1:\n"
    "  leaq 2(%rdx), %rcx\n  cmpq %rcx, %rbp\n  je 1f\n  orq $2, %rax\n1:\n"
    "  leaq 3(%rdx), %rcx\n  cmpq %rcx, %r12\n  je 1f\n  orq $4, %rax\n1:\n"
    "  leaq 4(%rdx), %rcx\n  cmpq %rcx, %r13\n  je 1f\n  orq $8, %rax\n1:\n"
    "  leaq 5(%rdx), %rcx\n  cmpq %rcx, %r14\n  je 1f\n  orq $16, %rax\n1:\n"
    "  leaq 6(%rdx), %rcx\n  cmpq %rcx, %r15\n  je 1f\n  orq $32, %rax\n1:\n"
    "  movq %rdx, %rcx\n  xorq $0x5a5a5a5a, %rcx\n  cmpq %rcx, 8(%rsp)\n  je 1f\n  orq $64, %rax\n1:\n"
    "  notq %rcx\n  cmpq %rcx, 16(%rsp)\n  je 1f\n  orq $64, %rax\n1:\n"
    "  addq $40, %rsp\n"
    "  popq %r15\n  popq %r14\n  popq %r13\n  popq %r12\n  popq %rbx\n  popq %rbp\n  ret\n"
    ".size swap_checked,.-swap_checked\n");

// ---- mmap accounting (FIBER_STACK_MMAP build): the library's calls land here ----------
static struct { void* a; size_t n; } maps[16];
static int nmaps;
static long mmaps_done, munmaps_done;
void* mmap(void* addr, size_t len, int prot, int flags, int fd, off_t off) {
  void* r = (void*)syscall(SYS_mmap, addr, len, prot, flags, fd, off);
  if (fmc_exploring() && r != MAP_FAILED && nmaps < 16) {
    maps[nmaps].a = r;
    maps[nmaps++].n = len;
    mmaps_done++;
  }
  return r;
}
int munmap(void* addr, size_t len) {
  if (fmc_exploring()) {
    int found = -1;
    for (int i = 0; i < nmaps; i++)
      if (maps[i].a == addr) found = i;
    if (found < 0) fmc_fail("context: munmap(%p,%zu) of a region that is not a live stack mapping (released twice?)", addr, len);
    if (maps[found].n != len) fmc_fail("context: munmap with length %zu of a stack that was mapped with length %zu", len, maps[found].n);
    maps[found] = maps[--nmaps];
    munmaps_done++;
  }
  return (int)syscall(SYS_munmap, addr, len);
}

// ---- the walk ----------------------------------------------------------------------------
#define NCTX 4
#define MAXL 8
static fiber_context_t ctx[NCTX];
static int exists[NCTX], entered[NCTX], gen[NCTX];
static uint64_t rsp_slot[NCTX];
static int walk[MAXL], L, step, cur;
static size_t stack_size;
static uint64_t n_switches;

static void* ctx_entry(void* p);
static int deep, fill;

static void ensure(int k) {
  if (exists[k]) return;
  gen[k]++;
  // the caller's storage is arbitrary when fiber_context_init is called (the project's own
  // test_context uses an uninitialised array): 0 = zero-filled, 1 = all ones, 2 = whatever the
  // previous occupant (another created context, or a thread context) left behind
  if (fill == 0) memset(&ctx[k], 0, sizeof ctx[k]);
  else if (fill == 1) memset(&ctx[k], 0xff, sizeof ctx[k]);
  else if (gen[k] == 1) { fiber_context_init_from_thread(&ctx[k]); fiber_context_destroy(&ctx[k]); }
  if (fiber_context_init(&ctx[k], stack_size, ctx_entry, (void*)(uintptr_t)(0xC0DE0000 + k * 256 + gen[k])) != FIBER_SUCCESS)
    fmc_fail("context: fiber_context_init failed for stack size %zu", stack_size);
  exists[k] = 1;
  entered[k] = 0;
}
static void destroy(int k) {
  if (!exists[k]) return;
  fiber_context_destroy(&ctx[k]);
  exists[k] = 0;
}

static void switch_to(int self, int target) {
  uint64_t tag = ((uint64_t)(self + 1) << 48) | ((uint64_t)(step + 1) << 32) | ((uint64_t)gen[self] << 24) | 0x1111;
  cur = target;
  n_switches++;
  long bad = swap_checked(&ctx[self], &ctx[target], tag, &rsp_slot[self]);
  if (bad)
    fmc_fail("context: context %d resumed with wrong machine state (mask 0x%lx: 1 rbx 2 rbp 4 r12 8 r13 16 r14 32 r15 64 stack contents 128 stack pointer 256 frame)", self, bad);
  if (cur != self) fmc_fail("context: context %d resumed while context %d was the switch target", self, cur);
}

// -Ddeep=D: a created context first descends D frames of ~400 bytes (with split stacks: into
// further stack segments), switches away at that depth, and when it is resumed descends again
// before unwinding; every frame checks its own contents afterwards. A context must find its
// whole stack - not just the frame it switched from - exactly as it left it.
static __attribute__((noinline)) void probe(int depth) {
  volatile unsigned char pad[800];
  for (int i = 0; i < 800; i++) pad[i] = (unsigned char)(depth * 13 + i);
  if (depth > 0) probe(depth - 1);
  for (int i = 0; i < 800; i++)
    if (pad[i] != (unsigned char)(depth * 13 + i)) fmc_fail("context: stack contents of a frame changed while deeper frames were active");
}
static __attribute__((noinline)) void deep_switch(int self, int target, int depth) {
  volatile unsigned char pad[800];
  for (int i = 0; i < 800; i++) pad[i] = (unsigned char)(self * 31 + depth * 7 + i);
  if (depth > 0) deep_switch(self, target, depth - 1);
  else {
    switch_to(self, target);
    probe(deep);
  }
  for (int i = 0; i < 800; i++)
    if (pad[i] != (unsigned char)(self * 31 + depth * 7 + i))
      fmc_fail("context: context %d found a frame %d levels above its switch point overwritten after being resumed", self, depth);
}

// runs in whichever context currently has the cpu
static void run_steps(int self) {
  for (;;) {
    if (step >= L) {
      if (self == 0) return;
      switch_to(self, 0);
      continue;
    }
    int s = walk[step++];
    if (s >= NCTX) {
      int k = s - NCTX + 1;
      if (k != self) destroy(k);
      continue;
    }
    if (s == self) continue;
    if (s != 0) ensure(s);
    if (deep && self != 0) deep_switch(self, s, deep);
    else switch_to(self, s);
  }
}

static void* ctx_entry(void* p) {
  int k = cur;
  uintptr_t fa = (uintptr_t)__builtin_frame_address(0);
  if (p != (void*)(uintptr_t)(0xC0DE0000 + k * 256 + gen[k])) fmc_fail("context: fresh context %d started with argument %p", k, p);
  if (entered[k]++) fmc_fail("context: context %d entered its function twice", k);
  if (fa % 16 != 0) fmc_fail("context: fresh context %d started with a misaligned stack (frame address %p: rsp %% 16 != 8 at entry)", k, (void*)fa);
#ifndef FIBER_STACK_SPLIT
  uintptr_t lo = (uintptr_t)ctx[k].ctx_stack, hi = lo + ctx[k].ctx_stack_size;
  if (fa < lo || fa >= hi) fmc_fail("context: fresh context %d runs outside its own stack [%p,%p): frame at %p", k, (void*)lo, (void*)hi, (void*)fa);
#endif
  run_steps(k);
  fmc_fail("context: run_steps returned inside context %d", k);
  return 0;
}

static uint64_t one_walk(void) {
  memset(exists, 0, sizeof exists);
  step = 0;
  cur = 0;
  uint64_t a0, f0, l0, a1, f1, l1;
  fmc_heap_stats(&a0, &f0, &l0);
  long m0 = mmaps_done - munmaps_done;
  if (fiber_context_init_from_thread(&ctx[0]) != FIBER_SUCCESS) fmc_fail("context: init_from_thread failed");
  exists[0] = 1;
  run_steps(0);
  for (int k = NCTX - 1; k >= 0; k--) destroy(k);
  fmc_heap_stats(&a1, &f1, &l1);
  if (a1 - a0 != f1 - f0 || l1 != l0)
    fmc_fail("context: allocation balance broken after destroying every context: %lu allocations, %lu frees, %ld bytes still live", (unsigned long)(a1 - a0), (unsigned long)(f1 - f0), (long)(l1 - l0));
  if (mmaps_done - munmaps_done != m0) fmc_fail("context: %ld stack mappings were never unmapped", (mmaps_done - munmaps_done) - m0);
  return 1;
}

// ---- second kernel thread resumes a context saved by the first one --------------------------
static volatile int handoff;
static void* other_thread(void* p) {
  // thread 1 continues the walk on behalf of thread 0: it switches into context 1,
  // which was saved by thread 0, and gets back here when the walk ends
  L = 3; walk[0] = 1; walk[1] = 2; walk[2] = 1;
  fiber_context_t mine;
  fiber_context_init_from_thread(&mine);
  ctx[0] = mine;  // "context 0" is now this thread
  step = 0;
  run_steps(0);
  handoff = 2;
  return 0;
}

int harness_main(void) {
  stack_size = (size_t)fmc_param("stack", 16384);
  int len = fmc_param("len", 6);
  deep = fmc_param("deep", 0);
  if (fmc_param("threads", 1) == 2) {
    pthread_t th;
    pthread_create(&th, 0, other_thread, 0);
    fmc_begin();
    // thread 0: create context 1, run it once, come back (context 1 is now saved by thread 0)
    fiber_context_init_from_thread(&ctx[0]);
    exists[0] = 1;
    L = 2; walk[0] = 1; walk[1] = 0; step = 0; cur = 0;
    run_steps(0);
    fmc_wait_threads();
    if (handoff != 2) fmc_fail("context: the second thread did not finish its walk");
    for (int k = NCTX - 1; k >= 1; k--) destroy(k);
    fmc_count(1);
    fmc_add_steps(n_switches);
    fmc_obs(n_switches);
    fmc_end();
  }
  fmc_begin();
  int alpha = NCTX + 2;
  int first = fmc_input(alpha), second = fmc_input(alpha);
  fill = fmc_input(3);
  uint64_t walks = 0;
  for (int l = 2; l <= len; l++) {
    int rest = l - 2, combos = 1;
    for (int i = 0; i < rest; i++) combos *= alpha;
    for (int c = 0; c < combos; c++) {
      L = l;
      walk[0] = first;
      walk[1] = second;
      int cc = c;
      for (int i = 2; i < l; i++) { walk[i] = cc % alpha; cc /= alpha; }
      walks += one_walk();
    }
  }
  fmc_count(walks);
  fmc_add_steps(n_switches);
  fmc_obs(n_switches);
  fmc_end();
}
