// C15: mpsc_fifo (q=0), spsc_fifo (q=1), mpsc_relaxed_fifo (q=2) under raw threads.
// Oracle: the recorded call/return history must linearize against a FIFO
// queue (per-producer FIFO queues for the relaxed variant) in which a pop may
// additionally return "empty" when some push overlapped the pop call.
// That one check subsumes exactly-once, no invented items, per-producer order
// and (strict MPSC) "a push that completed before another began comes first".
// Popped nodes are freed at once, so a queue that touches a node after handing
// it out trips the heap oracle.
#include "mpsc_fifo.h"
#include "mpsc_relaxed_fifo.h"
#include "raw_common.h"
#include "spsc_fifo.h"

enum { OP_PUSH = 1, OP_POP = 2 };
static int q, nprod, per, npops;
static mpsc_fifo_t mq;
static spsc_fifo_t sq;
static int recycle;
extern void fmc_fence(void);
static void* pool[8];
static int npool;
GHOST static void give_back(void* n) { if (npool < 8) pool[npool++] = n; }
GHOST static void* take_back(void) { return npool ? pool[--npool] : 0; }
static mpscr_fifo_t* rq;

typedef struct { uint8_t n[2]; uint8_t v[2][6]; uint8_t relaxed; } qstate_t;

static int spec(void* st_, const fmc_op_t* op, int ret_known) {
  qstate_t* st = st_;
  if (op->kind == OP_PUSH) {
    int prod = st->relaxed ? (int)(op->arg / 10) - 1 : 0;
    if (st->n[prod] >= 6) return 0;
    st->v[prod][st->n[prod]++] = (uint8_t)op->arg;
    return 1;
  }
  if (!ret_known) return 1;
  if (op->ret == 0) {
    if (op->arg) return 1;  // a push overlapped this pop: empty is allowed
    // x86-TSO runs: a push that has returned may still sit in its thread's store buffer, so
    // "completed" in real time does not imply visible; only safety is judged there
    if (fmc_tso_mode()) return 1;
    return st->n[0] == 0 && st->n[1] == 0;
  }
  for (int prod = 0; prod < 2; prod++) {
    if (st->n[prod] && st->v[prod][0] == op->ret) {
      memmove(st->v[prod], st->v[prod] + 1, 5);
      st->n[prod]--;
      return 1;
    }
    if (!st->relaxed) break;
  }
  return 0;
}

static void push_val(int prod, int val) {
  int op = fmc_op_begin(OP_PUSH, val);
  if (q == 0) {
    mpsc_fifo_node_t* n = malloc(sizeof *n);
    n->data = (void*)(intptr_t)val;
    mpsc_fifo_push(&mq, n);
  } else {
    // -Drecycle=1: nodes the consumer has popped are pushed again (they still carry their old link)
    spsc_node_t* n = recycle ? take_back() : 0;
    if (!n) n = malloc(sizeof *n);
    n->data = (void*)(intptr_t)val;
    if (q == 1) spsc_fifo_push(&sq, n);
    else mpscr_fifo_push(rq, prod - 1, n);
  }
  fmc_op_end(op, 0);
}

static intptr_t pop_val(void) {
  int op = fmc_op_begin(OP_POP, 0);
  intptr_t v = 0;
  if (q == 0) {
    mpsc_fifo_node_t* n = mpsc_fifo_trypop(&mq);
    if (n) { v = (intptr_t)n->data; free(n); }
  } else {
    spsc_node_t* n = q == 1 ? spsc_fifo_trypop(&sq) : mpscr_fifo_trypop(rq);
    if (n) {
      v = (intptr_t)n->data;
      // the hand-over of the node to the producer stands for a real message to another thread: on
      // x86 it can only be seen after every earlier store of this thread (FIFO store buffer), so the
      // buffer is drained first - a ghost hand-over that overtook a delayed store to the node was a
      // false alarm of the thorough tier (P2 + one delayed store)
      if (recycle) { fmc_fence(); give_back(n); }
      else free(n);
    }
  }
  fmc_op_end(op, v);
  return v;
}

static void* body(void* p) {
  int t = (int)(intptr_t)p;
  if (t <= nprod) {
    for (int i = 1; i <= per; i++) push_val(t, t * 10 + i);
  } else {
    for (int i = 0; i < npops; i++) pop_val();
  }
  raw_set_done(t);
  return 0;
}

GHOST static void check(void) {
  fmc_op_t* o = fmc_ops();
  int n = fmc_nops();
  for (int i = 0; i < n; i++) {
    if (o[i].kind != OP_POP) continue;
    o[i].arg = 0;
    for (int j = 0; j < n; j++)
      if (o[j].kind == OP_PUSH && o[j].inv < o[i].resp && (!o[j].resp || o[i].inv < o[j].resp)) o[i].arg = 1;
  }
  qstate_t init;
  memset(&init, 0, sizeof init);
  init.relaxed = q == 2;
  if (!fmc_linearizable(spec, &init, sizeof init)) {
    char h[400];
    fmc_history_dump(h, sizeof h);
    fmc_fail("%s: history is not a legal FIFO history (lost, duplicated, invented or mis-ordered item, or empty reported with a completed push pending): %s",
             q == 0 ? "mpsc_fifo" : q == 1 ? "spsc_fifo" : "mpscr_fifo", h);
  }
  fmc_history_obs();
}

int harness_main(void) {
  q = fmc_param("q", 0);
  nprod = q == 1 ? 1 : fmc_param("prod", 2);
  per = fmc_param("per", q == 1 ? 3 : 2);
  npops = fmc_param("pops", 4);
  recycle = fmc_param("recycle", 0);
  if (q == 0) mpsc_fifo_init(&mq);
  else if (q == 1) spsc_fifo_init(&sq);
  else rq = mpscr_fifo_create(nprod);
  raw_run(nprod + 1, body);
  // drain: everything pushed must come out, in order
  for (int i = 0; i < nprod * per + 1; i++) pop_val();
  check();
  fmc_op_t* o = fmc_ops();
  int popped = 0;
  for (int i = 0; i < fmc_nops(); i++)
    if (o[i].kind == OP_POP && o[i].ret) popped++;
  if (popped != nprod * per) fmc_fail("queue: %d items pushed but %d popped after draining", nprod * per, popped);
  fmc_end();
}
