// C09: sleeping fibers under the real runtime with a virtual timer.
// The timerfd is an eventfd; a tick is injected only by the explorer: by default
// when every kernel thread has gone idle (time passes only when nothing else can
// happen; after six single ticks the step grows geometrically so that long
// sleeps terminate), and as environment deviations (E) of 2 or 8 ticks at
// quiescence or 1/2/8 ticks at any scheduling point (tick phase, backlog of
// unread expirations, several sleepers sharing one read).
// Virtual time = ticks injected x 5 ms. A sleep that was called after V0 ticks
// and resumed after V1 ticks has really lasted less than (V1-V0+1) x 5 ms, so it
// is reported early only if (V1-V0+1) x 5000 us <= requested (never a false alarm).
//  sc=0  one sleeper; duration and call (usleep/sleep/nanosleep/fiber_sleep) are enumerated inputs
//  sc=1  2-3 sleepers with equal/different deadlines + a ticker fiber (steal-while-waking)
//  sc=2  backlog: the only kernel thread is busy while ticks pile up, then a fiber sleeps
#include <time.h>
#include <unistd.h>

#include "fiber_event.h"
#include "rt_common.h"

static int sc, nsleepers;
static int g_asleep, g_woken, g_ticker_runs, g_ticker_runs_at_sleep[4], g_done_sleepers;
static uint64_t g_qcount;

typedef struct { int kind; uint32_t a, b; } req_t;  // kind 0 usleep(a) 1 sleep(a) 2 nanosleep(a s, b ns) 3 fiber_sleep(a s, b us)
static const req_t reqs[] = {
    {0, 0, 0}, {0, 1, 0}, {0, 999, 0}, {0, 1000, 0}, {0, 1001, 0}, {0, 4999, 0}, {0, 5000, 0}, {0, 5001, 0},
    {0, 999999, 0}, {1, 0, 0}, {1, 1, 0}, {2, 0, 1}, {2, 0, 999999999}, {2, 1, 500000000}, {3, 0, 0}, {3, 1, 999999},
};
#define NREQ 16
// durations that can only be reached by fast-forwarding (thorough tier / -Dbig=1)
static const req_t bigreqs[] = {{1, 4294967, 0}, {1, 4294968, 0}, {1, 4294967295u, 0}, {3, 4294968, 0}, {2, 4294968, 0}};
#define NBIG 5

static double req_us(const req_t* r) {
  switch (r->kind) {
    case 0: return r->a;
    case 1: return r->a * 1e6;
    case 2: return r->a * 1e6 + r->b / 1e3;
    default: return r->a * 1e6 + r->b;
  }
}
static void do_sleep(const req_t* r) {
  if (r->kind == 0) usleep(r->a);
  else if (r->kind == 1) sleep(r->a);
  else if (r->kind == 2) {
    struct timespec ts = {r->a, r->b};
    nanosleep(&ts, 0);
  } else fiber_sleep(r->a, r->b);
}

static int env_nalts_cfg, env_window;
GHOST static uint64_t before_sleep(int id) {
  g_asleep++;
  if (env_window) fmc_env_nalts = env_nalts_cfg;  // deviations only while somebody is in or near a sleep
  g_ticker_runs_at_sleep[id] = g_ticker_runs;
  return fmc_vticks();
}
GHOST static void after_sleep(int id, const req_t* r, uint64_t v0) {
  uint64_t v1 = fmc_vticks();
  g_asleep--;
  if (env_window && !g_asleep) fmc_env_nalts = 0;
  g_woken++;
  double upper_us = (double)(v1 - v0 + 1) * 5000.0;
  if (upper_us <= req_us(r))
    fmc_fail("sleep: fiber %d woke early: requested %.0f us (call kind %d, args %u,%u) but at most %.0f us of virtual time passed (%lu ticks)", id, req_us(r), r->kind, r->a, r->b, upper_us, (unsigned long)(v1 - v0));
  fmc_obs((uint64_t)id * 1000003u + (v1 - v0));
}
GHOST static void ticker_ran(void) { g_ticker_runs++; }
GHOST static int all_sleepers_done(void) { return g_done_sleepers >= nsleepers; }
GHOST static void sleeper_done(void) { g_done_sleepers++; }

static req_t chosen[4];
static volatile char scribble_sink;

static void* sleeper(void* p) {
  int id = (int)(intptr_t)p;
  fmc_env_observe();  // the virtual clock is read next
  uint64_t v0 = before_sleep(id);
  do_sleep(&chosen[id]);
  after_sleep(id, &chosen[id], v0);
  sleeper_done();
  return 0;
}
static void* ticker(void* p) {
  // keeps running while others sleep; stops when they are all done
  int rounds = 0;
  while (!all_sleepers_done() && rounds++ < 100000) {
    ticker_ran();
    rt_force_balance();  // take the 1-in-1024 path of fiber_manager_yield on every round
    fiber_yield();
  }
  return 0;
}

// environment deviations at arbitrary scheduling points: inject 1, 2 or 8 ticks
int fmc_env_nalts = 0;
static int env_only;  // -Denvonly=k: the only deviation offered at scheduling points is a burst of k ticks
void fmc_env_alt(int idx) {
  static const int k[] = {1, 2, 8, 32};
  fmc_tick(env_only ? (uint64_t)env_only : (uint64_t)k[idx]);
}

static int at_quiescence(void) {
  if (all_sleepers_done() && !g_asleep) {
    if (sc == 1 && nsleepers && g_ticker_runs == 0) fmc_fail("sleep: the ticker fiber never ran while the others slept");
    fmc_end();
  }
  // time passes: one tick, or an environment deviation; long sleeps are fast-forwarded
  uint64_t k = 1;
  g_qcount++;
  if (g_qcount > 6) {
    int sh = (int)(g_qcount - 6) * 2;
    k = sh >= 40 ? (1ull << 40) : (1ull << sh);
  } else {
    int c = fmc_env_choose(3);
    k = c == 0 ? 1 : c == 1 ? 2 : 8;
  }
  if (g_qcount > 40) fmc_fail("sleep: a sleeping fiber was never resumed although %lu ticks were injected", (unsigned long)fmc_vticks());
  fmc_tick(k);
  return 1;
}

int harness_main(void) {
  sc = fmc_param("sc", 0);
  int big = fmc_param("big", 0);
  env_only = fmc_param("envonly", 0);
  fmc_env_nalts = env_only ? 1 : fmc_param("envpoints", 0);
  env_nalts_cfg = fmc_env_nalts;
  env_window = fmc_param("envwindow", 0);
  if (env_window) fmc_env_nalts = 0;  // 0 none, 3: {1,2,8}, 4: {1,2,8,32} ticks at any scheduling point
  rt_start();
  rt_quiescent_hook = at_quiescence;
  fiber_t* f[5];
  int nf = 0;
  fmc_begin();
  if (sc == 0) {
    nsleepers = 1;
    if (big) chosen[0] = bigreqs[fmc_input(NBIG)];
    else chosen[0] = reqs[fmc_input(NREQ)];
    f[nf++] = fiber_create(STK, sleeper, (void*)0);
  } else if (sc == 1) {
    nsleepers = fmc_param("sleepers", 2);
    int same = fmc_param("same", 1);
    for (int i = 0; i < nsleepers; i++) {
      uint32_t base = (uint32_t)fmc_param("us", 1000);
      chosen[i] = (req_t){0, (uint32_t)(same ? base : base + 5000 * i), 0};
      f[nf++] = fiber_create(STK, sleeper, (void*)(intptr_t)i);
    }
    if (fmc_param("ticker", 1)) f[nf++] = fiber_create(STK, ticker, 0);
  } else {
    // backlog: nobody polls while `pile` ticks expire (the only kernel thread is busy in
    // this fiber), then this fiber sleeps; the first poll afterwards reads the whole backlog
    nsleepers = 1;
    chosen[0] = (req_t){0, (uint32_t)fmc_param("us", 20000), 0};
    fmc_tick(fmc_param("pile", 12));
    fmc_env_observe();
    uint64_t v0 = before_sleep(0);
    do_sleep(&chosen[0]);
    after_sleep(0, &chosen[0], v0);
    sleeper_done();
  }
  for (int i = 0; i < nf; i++)
    if (fiber_join(f[i], 0) != FIBER_SUCCESS) fmc_fail("sleep harness: join failed");
  rt_finish();
  return 0;
}
