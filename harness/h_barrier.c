// C12: fiber_barrier, `count` fibers, `rounds` back-to-back rounds, N kernel threads.
// Oracle: a fiber returns from its k-th wait only after `count` fibers entered
// their k-th wait; exactly one serial fiber per round; everybody returns
// (main joins all: a stranded fiber is a DEADLOCK verdict).
#include "fiber_barrier.h"
#include "rt_common.h"

static fiber_barrier_t bar;
static int count, rounds;
static int g_arrived[8], g_serial[8], g_left[8];

GHOST static void arrive(int k) { g_arrived[k]++; }
GHOST static void leave(int id, int k, int ret) {
  if (g_arrived[k] < count)
    fmc_fail("barrier: fiber %d left round %d after only %d of %d fibers had entered it", id, k, g_arrived[k], count);
  if (ret == FIBER_BARRIER_SERIAL_FIBER) {
    g_serial[k]++;
    if (g_serial[k] > 1) fmc_fail("barrier: two serial fibers in round %d", k);
  }
  g_left[k]++;
  fmc_obs(id * 64 + k * 4 + (ret == FIBER_BARRIER_SERIAL_FIBER));
}

static void* body(void* p) {
  int id = (int)(intptr_t)p;
  for (int k = 0; k < rounds; k++) {
    arrive(k);
    int r = fiber_barrier_wait(&bar);
    leave(id, k, r);
  }
  return 0;
}

int harness_main(void) {
  count = fmc_param("count", 2);
  rounds = fmc_param("rounds", 2);
  int mainpart = fmc_param("main", 0);  // main fiber is one of the participants
  rt_start();
  fiber_barrier_init(&bar, count);
  fmc_focus(&bar, sizeof bar);
  // -Dwrap=1: the barrier has already been through 2^32/count - 1 complete rounds (any number of
  // rounds is allowed; a round boundary with both waiter lists empty is an ordinary state), so
  // the arrival counter crosses 2^32 during the second round explored here
  if (fmc_param("wrap", 0)) bar.counter = (4294967296ULL / (unsigned)count - 1) * (unsigned)count;
  fiber_t* f[8];
  rt_pin_begin();
  fmc_begin();
  int nf = mainpart ? count - 1 : count;
  for (int i = 0; i < nf; i++) f[i] = rt_create(i, STK, body, (void*)(intptr_t)i);
  rt_pin_end();
  if (mainpart) body((void*)(intptr_t)(count - 1));
  else fmc_yield();
  for (int i = 0; i < nf; i++)
    if (fiber_join(f[i], 0) != FIBER_SUCCESS) fmc_fail("barrier harness: join failed");
  for (int k = 0; k < rounds; k++) {
    if (g_serial[k] != 1) fmc_fail("barrier: round %d had %d serial fibers (expected exactly 1)", k, g_serial[k]);
    if (g_left[k] != count) fmc_fail("barrier: only %d of %d fibers left round %d", g_left[k], count, k);
  }
  rt_finish();
  return 0;
}
