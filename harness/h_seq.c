// C01 (and C02): ONE fiber goes through a SEQUENCE of different suspension mechanisms while
// another kernel thread delivers the matching wake-ups. The mechanisms share per-fiber state
// (fiber->scratch is used by signals, multi signals, multi channels and fd waits; the
// deferred-action slots of the manager are shared by all of them), so what one mechanism
// leaves behind can break the hand-shake of the next one. Every ordered pair (thorough: triple)
// of mechanisms is enumerated as inputs; every schedule within the pre-emption bound of each.
//   0 fd wait ended by close()   1 fd wait ended by data   2 fiber_signal   3 fiber_multi_signal
//   4 multi channel receive      5 usleep (virtual timer)  6 mutex          7 semaphore
// Oracles: run map (resumed only from a saved state, one thread at a time), wake accounting,
// heap/stack, and every wait must end (nobody stranded).
#include <errno.h>
#include <sys/socket.h>
#include <sys/syscall.h>
#include <unistd.h>

#include "fiber_channel.h"
#include "fiber_semaphore.h"
#include "rt_common.h"
#undef _FIBER_CHANNEL_H_
#include "fiber_multi_channel.h"

#define MAXSTEPS 3
static int nsteps, mech[MAXSTEPS];
static int sv[MAXSTEPS][2];
static fiber_signal_t sig;
static fiber_multi_signal_t msig;
static fiber_multi_channel_t* mc;
static fiber_mutex_t mtx;
static fiber_semaphore_t sem;
static int g_about[MAXSTEPS], g_done[MAXSTEPS], g_all_done, g_ready[MAXSTEPS], lazy;
GHOST static void set_ready(int k) { g_ready[k] = 1; }
GHOST static int is_ready(int k) { return g_ready[k]; }

GHOST static void about(int k) { g_about[k] = 1; }
GHOST static int is_about(int k) { return g_about[k]; }
GHOST static void done(int k) { g_done[k] = 1; fmc_obs(k * 16 + mech[k]); }
GHOST static int is_done(int k) { return g_done[k]; }
GHOST static void all_done(void) { g_all_done = 1; }
GHOST static int finished(void) { return g_all_done; }

static void* walker(void* p) {
  for (int k = 0; k < nsteps; k++) {
    char b = 0;
    while (!is_ready(k)) fiber_yield();
    about(k);
    switch (mech[k]) {
      case 0: {
        ssize_t n = read(sv[k][0], &b, 1);
        if (n > 0) fmc_fail("seq: read on a descriptor closed by another fiber returned data");
        break;
      }
      case 1: {
        ssize_t n = read(sv[k][0], &b, 1);
        if (n != 1 || b != 'x') fmc_fail("seq: blocking read returned %zd (errno %d)", n, rt_errno());
        break;
      }
      case 2: fiber_signal_wait(&sig); break;
      case 3: fiber_multi_signal_wait(&msig); break;
      case 4: if (fiber_multi_channel_receive(mc) != (void*)0x77) fmc_fail("seq: wrong message from the multi channel"); break;
      case 5: usleep(1000); break;
      case 6: fiber_mutex_lock(&mtx); fiber_mutex_unlock(&mtx); break;
      default: fiber_semaphore_wait(&sem); break;
    }
    done(k);
  }
  all_done();
  return 0;
}

static int at_quiescence(void) {
  if (finished()) fmc_end();
  static int ticks;
  if (++ticks > 30) fmc_fail("seq: the fiber is stuck in step with mechanism %d/%d/%d although its wake-up was delivered", mech[0], mech[1], nsteps > 2 ? mech[2] : -1);
  fmc_tick(1);
  return 1;
}

int harness_main(void) {
  nsteps = fmc_param("steps", 2);
  rt_start();
  rt_quiescent_hook = at_quiescence;
  fiber_signal_init(&sig);
  fiber_multi_signal_init(&msig);
  mc = fiber_multi_channel_create(1);
  fiber_mutex_init(&mtx);
  fiber_semaphore_init(&sem, 0);
  fmc_begin();
  // -Dfdonly=1 restricts the alphabet to the two descriptor waits (used by the C08 check)
  for (int k = 0; k < nsteps; k++) mech[k] = fmc_input(fmc_param("fdonly", 0) ? 2 : 8);
  // -Dlazy=1: the socket pair of a step is created only when the previous step is over, so a
  // descriptor closed in one step gives its NUMBER to the next one (what the library remembers
  // per descriptor number must not leak from the old descriptor to the new one)
  lazy = fmc_param("lazy", 0);
  for (int k = 0; k < nsteps; k++) {
    if (!lazy && mech[k] <= 1 && socketpair(AF_UNIX, SOCK_STREAM, 0, sv[k])) fmc_fail("seq harness: socketpair failed");
    if (!lazy) set_ready(k);
  }
  fiber_t* f = fiber_create(STK, walker, 0);
  // the main fiber never switches fibers while it waits (engine-level yield), so the walker is
  // stolen by the other kernel thread and every wake-up below comes from a different thread
  for (int k = 0; k < nsteps; k++) {
    if (mech[k] == 6) fiber_mutex_lock(&mtx);
    if (lazy) {
      if (mech[k] <= 1 && socketpair(AF_UNIX, SOCK_STREAM, 0, sv[k])) fmc_fail("seq harness: socketpair failed");
      set_ready(k);
    }
    while (!is_about(k)) fmc_yield();
    switch (mech[k]) {
      case 0: close(sv[k][0]); break;
      case 1: if (syscall(SYS_write, sv[k][1], "x", 1) != 1) fmc_fail("seq harness: peer write failed"); break;
      case 2: fiber_signal_raise(&sig); break;
      case 3: fiber_multi_signal_raise(&msig); break;
      case 4: fiber_multi_channel_send(mc, (void*)0x77); break;
      case 5: break;
      case 6: fiber_mutex_unlock(&mtx); break;
      default: fiber_semaphore_post(&sem); break;
    }
    while (!is_done(k)) fmc_yield();
  }
  if (fiber_join(f, 0) != FIBER_SUCCESS) fmc_fail("seq harness: join failed");
  rt_finish();
  return 0;
}
