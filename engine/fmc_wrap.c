// Link-time (--wrap) observation of runtime-internal events: context switches,
// fiber creation/destruction, "made runnable" events. Compiled WITHOUT
// instrumentation but with the sanitizer's struct layouts (-D__SANITIZE_THREAD__).
// Holds the ghost state of the C01 run map and the C02 wake accounting.
#include "fmc_int.h"
#include "fiber_manager.h"

enum { G_FRESH = 1, G_RUNNING, G_SAVING, G_SAVED, G_DESTROYED };
static const char* gname[] = {"?", "fresh", "running", "saving", "saved", "destroyed"};

typedef struct {
  fiber_context_t* ctx;
  int state, thread, pending, is_thread, stackidx, id;
  fiber_run_function_t fn;
  void* param;
  long runs;
} gf_t;
#define MAXGF 1024
static gf_t gfs[MAXGF];
static int ngf;
static fiber_context_t* last_from[MAXT];
static long thread_swaps[MAXT];
// number of fiber context switches performed by a kernel thread so far
long fmc_thread_switches(int tid) { return thread_swaps[tid]; }

extern int __real_fiber_context_init(fiber_context_t*, size_t, fiber_run_function_t, void*);
extern int __real_fiber_context_init_from_thread(fiber_context_t*);
extern void __real_fiber_context_swap(fiber_context_t*, fiber_context_t*);
extern void __real_fiber_context_destroy(fiber_context_t*);
extern void __real_fiber_scheduler_schedule(fiber_scheduler_t*, fiber_t*);
extern fiber_t* __real_fiber_scheduler_next(fiber_scheduler_t*);

extern void fmc_on_fiber_destroy(fiber_t* f) __attribute__((weak));

static gf_t* find(fiber_context_t* c) {
  for (int i = ngf - 1; i >= 0; i--)
    if (gfs[i].ctx == c && gfs[i].state != G_DESTROYED) return &gfs[i];
  for (int i = ngf - 1; i >= 0; i--)
    if (gfs[i].ctx == c) return &gfs[i];
  return 0;
}
static void sethot(gf_t* g) {
  if (g && g->stackidx >= 0) fmc_fstacks[g->stackidx].hot = g->pending > 0 || g->state == G_RUNNING;
}
static gf_t* newgf(fiber_context_t* c) {
  if (ngf >= MAXGF) fmc_finish(V_ENGINE, "too many fibers for the ghost table");
  gf_t* g = &gfs[ngf];
  memset(g, 0, sizeof *g);
  g->ctx = c;
  g->id = ngf++;
  g->stackidx = -1;
  return g;
}
#define FIBER_OF(c) ((fiber_t*)((char*)(c) - offsetof(fiber_t, context)))

// number of the fiber (creation order) for harness messages; -1 unknown
int fmc_fiber_index(fiber_t* f) {
  gf_t* g = find(&f->context);
  return g ? g->id : -1;
}
long fmc_fiber_runs(fiber_t* f) {
  gf_t* g = find(&f->context);
  return g ? g->runs : -1;
}
int fmc_fiber_pending(fiber_t* f) {
  gf_t* g = find(&f->context);
  return g ? g->pending : 0;
}

static void post_swap(void) {
  int k = fmc_tid();
  fiber_context_t* prev = last_from[k];
  last_from[k] = 0;
  if (!prev) return;
  gf_t* g = find(prev);
  if (g && g->state == G_SAVING) {
    g->state = G_SAVED;
    if (g->stackidx >= 0) fmc_fstacks[g->stackidx].running_on = -1;
  }
}

static void* fiber_entry(void* p) {
  gf_t* g = (gf_t*)p;
  post_swap();
  return g->fn(g->param);
}

int __wrap_fiber_context_init(fiber_context_t* ctx, size_t size, fiber_run_function_t fn, void* param) {
  if (!fmc_in_child) return __real_fiber_context_init(ctx, size, fn, param);
  gf_t* g = newgf(ctx);
  g->fn = fn;
  g->param = param;
  g->state = G_FRESH;
  int r = __real_fiber_context_init(ctx, size, fiber_entry, g);
  if (r == FIBER_SUCCESS && fmc_nfstacks < MAXFSTACK) {
    fstack_t* s = &fmc_fstacks[fmc_nfstacks];
    s->lo = (uintptr_t)ctx->ctx_stack;
    s->hi = s->lo + ctx->ctx_stack_size;
    s->sp_slot = &ctx->ctx_stack_pointer;
    s->running_on = -1;
    s->alive = 1;
    s->ctx = ctx;
    s->hot = 0;
    s->id = g->id;
    g->stackidx = fmc_nfstacks++;
  }
  return r;
}

int __wrap_fiber_context_init_from_thread(fiber_context_t* ctx) {
  int r = __real_fiber_context_init_from_thread(ctx);
  if (fmc_in_child) {
    gf_t* g = newgf(ctx);
    g->state = G_RUNNING;
    g->is_thread = 1;
    g->thread = -1;
  }
  return r;
}

static int exempt(fiber_t* f) {
  fiber_manager_t* m = fiber_manager_get();
  // only the per-thread maintenance (idle loop) fiber is entered without a wake-up;
  // thread 0's thread fiber is the main program and is scheduled like any other
  return m && f == m->maintenance_fiber;
}

void __wrap_fiber_context_swap(fiber_context_t* from, fiber_context_t* to) {
  if (!fmc_is_exploring) {
    __real_fiber_context_swap(from, to);
    post_swap();
    return;
  }
  fmc_sched_here(__builtin_return_address(0));
  int k = fmc_tid();
  gf_t* gfrom = find(from);
  gf_t* gto = find(to);
  if (fmc_omask & FMC_O_RUNMAP) {
    if (!gto) fmc_fail("runmap: switch to a context that was never initialised (%p)", (void*)to);
    if (gto->state == G_DESTROYED) fmc_fail("runmap: fiber #%d resumed after it was destroyed", gto->id);
    if (gto->state == G_RUNNING && !(gto->is_thread && gto->thread == -1))
      fmc_fail("runmap: fiber #%d resumed on T%d while it is running on T%d", gto->id, k, gto->thread);
    if (gto->state == G_SAVING) fmc_fail("runmap: fiber #%d resumed on T%d before its suspension on T%d completed (context not saved yet)", gto->id, k, gto->thread);
    if (gfrom && gfrom->state != G_RUNNING) fmc_fail("runmap: T%d switches away from fiber #%d which is %s", k, gfrom->id, gname[gfrom->state]);
    if (gfrom && gfrom->state == G_RUNNING && gfrom->thread >= 0 && gfrom->thread != k)
      fmc_fail("runmap: fiber #%d is executing on T%d but is recorded as running on T%d", gfrom->id, k, gfrom->thread);
  }
  if (gto) {
    fiber_t* f = FIBER_OF(to);
    if (exempt(f)) {
      if (gto->pending > 0) gto->pending--;
    } else {
      gto->pending--;
      gto->runs++;
      if ((fmc_omask & FMC_O_WAKES) && gto->pending < 0)
        fmc_fail("wakes: fiber #%d is run a second time for one wake-up (run %ld, no pending wake-up)", gto->id, gto->runs);
    }
  }
  if (gfrom) {
    gfrom->state = G_SAVING;
    gfrom->thread = k;
  }
  if (gto) {
    gto->state = G_RUNNING;
    gto->thread = k;
    if (gto->stackidx >= 0) fmc_fstacks[gto->stackidx].running_on = k;
  }
  if (gfrom && gfrom->stackidx >= 0) fmc_fstacks[gfrom->stackidx].running_on = k;
  sethot(gfrom);
  sethot(gto);
  last_from[k] = from;
  fmc_cur_ctx[k] = to;
  thread_swaps[k]++;
  __real_fiber_context_swap(from, to);
  post_swap();
}

void __wrap_fiber_context_destroy(fiber_context_t* ctx) {
  if (fmc_in_child && ctx && !ctx->is_thread) {
    gf_t* g = find(ctx);
    if (g) {
      if (fmc_omask & (FMC_O_RUNMAP | FMC_O_RECLAIM)) {
        if (g->state == G_DESTROYED) fmc_fail("reclaim: fiber #%d destroyed twice", g->id);
        if (g->state == G_RUNNING || g->state == G_SAVING)
          fmc_fail("reclaim: fiber #%d reclaimed while it is still %s on T%d", g->id, gname[g->state], g->thread);
        if (g->pending > 0) fmc_fail("reclaim: fiber #%d reclaimed while it is still queued to run", g->id);
        if (FIBER_OF(ctx)->state != FIBER_STATE_DONE) fmc_fail("reclaim: fiber #%d reclaimed before it finished", g->id);
      }
      if (fmc_on_fiber_destroy) fmc_on_fiber_destroy(FIBER_OF(ctx));
      g->state = G_DESTROYED;
      if (g->stackidx >= 0) fmc_fstacks[g->stackidx].alive = 0;
    }
  }
  __real_fiber_context_destroy(ctx);
}

// a scheduler (its two single-owner deques) belongs to the kernel thread that runs its loop: the
// first thread seen asking it for the next fiber. Any other kernel thread pushing onto it or popping
// from it is a second owner of a single-owner queue - what a manager pointer kept across a
// migration of the fiber does.
static struct { fiber_scheduler_t* s; int owner; } sown[8];
static void sched_owner_check(fiber_scheduler_t* s, int is_next, const char* op) {
  if (!fmc_is_exploring || !(fmc_omask & FMC_O_OWNER)) return;
  int me_ = fmc_tid(), i = 0;
  while (i < 8 && sown[i].s && sown[i].s != s) i++;
  if (i == 8) return;
  if (!sown[i].s) {
    if (!is_next) return;  // ownership is learnt from the owner's own loop only
    sown[i].s = s;
    sown[i].owner = me_;
    return;
  }
  if (sown[i].owner != me_)
    fmc_fail("run queue: T%d calls %s on the scheduler that belongs to T%d (a manager/scheduler pointer kept across a migration of the fiber?): second owner of a single-owner run queue", me_, op, sown[i].owner);
}

void __wrap_fiber_scheduler_schedule(fiber_scheduler_t* s, fiber_t* f) {
  sched_owner_check(s, 0, "fiber_scheduler_schedule");
  if (fmc_is_exploring) {
    gf_t* g = find(&f->context);
    if (g) {
      g->pending++;
      if ((fmc_omask & FMC_O_RUNMAP) && g->state == G_DESTROYED) fmc_fail("runmap: destroyed fiber #%d made runnable", g->id);
      if ((fmc_omask & FMC_O_WAKES) && g->pending > 1) fmc_fail("wakes: fiber #%d made runnable twice without running in between", g->id);
      sethot(g);
    }
  }
  __real_fiber_scheduler_schedule(s, f);
}

fiber_t* __wrap_fiber_scheduler_next(fiber_scheduler_t* s) {
  sched_owner_check(s, 1, "fiber_scheduler_next");
  fiber_t* r = __real_fiber_scheduler_next(s);
  if (!r && fmc_is_exploring) {
    fiber_manager_t* m = fiber_manager_get();
    fiber_t* c = m ? m->current_fiber : 0;
    if (c && c != m->maintenance_fiber && c->state == FIBER_STATE_RUNNING) fmc_polite_yield();
  }
  return r;
}

// ---- owner-only operations of the run-queue deques -----------------------------------------
// push_bottom/pop_bottom of the Chase-Lev deque may only be executed by one kernel thread at a
// time (the owner): they update `bottom` without synchronisation. Two kernel threads inside such
// an operation of the same deque at once is a data race on the run queue - a runnable fiber can
// be dropped or handed out twice (C02). What is flagged is the real overlap, not who calls.
extern void __real_wsd_work_stealing_deque_push_bottom(wsd_work_stealing_deque_t*, void*);
extern void* __real_wsd_work_stealing_deque_pop_bottom(wsd_work_stealing_deque_t*);
static struct { void* d; int in; } dqs[32];
static int dq_enter(void* d, const char* op) {
  if (!fmc_is_exploring || !(fmc_omask & FMC_O_OWNER)) return -1;
  int i = 0;
  while (i < 32 && dqs[i].d && dqs[i].d != d) i++;
  if (i == 32) return -1;
  if (!dqs[i].d) { dqs[i].d = d; dqs[i].in = -1; }
  int me_ = fmc_tid();
  if (dqs[i].in >= 0 && dqs[i].in != me_)
    fmc_fail("run queue: T%d enters %s on a deque while T%d is inside an owner-only operation (push_bottom/pop_bottom) of the same deque: two owners at once", me_, op, dqs[i].in);
  dqs[i].in = me_;
  return i;
}
void __wrap_wsd_work_stealing_deque_push_bottom(wsd_work_stealing_deque_t* d, void* p) {
  int i = dq_enter(d, "push_bottom");
  __real_wsd_work_stealing_deque_push_bottom(d, p);
  if (i >= 0) dqs[i].in = -1;
}
void* __wrap_wsd_work_stealing_deque_pop_bottom(wsd_work_stealing_deque_t* d) {
  int i = dq_enter(d, "pop_bottom");
  void* r = __real_wsd_work_stealing_deque_pop_bottom(d);
  if (i >= 0) dqs[i].in = -1;
  return r;
}

// replica of the private scheduler struct's leading fields (src/fiber_scheduler_wsd.c)
typedef struct {
  wsd_work_stealing_deque_t* queue_one;
  wsd_work_stealing_deque_t* queue_two;
} sched_prefix_t;

// end-state part of C02: nothing runnable is left anywhere. Returns a static
// message or NULL.
const char* fmc_wrap_end_check(void) {
  static char msg[200];
  int n = fiber_manager_get_kernel_thread_count();
  for (int i = 0; i < n; i++) {
    sched_prefix_t* sp = (sched_prefix_t*)fiber_scheduler_for_thread(i);
    size_t a = wsd_work_stealing_deque_size(sp->queue_one), b = wsd_work_stealing_deque_size(sp->queue_two);
    if (a || b) {
      snprintf(msg, sizeof msg, "wakes: run queues of thread %d still hold %zu+%zu entries at the end", i, a, b);
      return msg;
    }
  }
  for (int i = 0; i < ngf; i++)
    if (gfs[i].pending > 0 && gfs[i].state != G_DESTROYED) {
      snprintf(msg, sizeof msg, "wakes: fiber #%d was made runnable but never ran (wake-up dropped)", gfs[i].id);
      return msg;
    }
  return 0;
}
