// call/return histories and a brute-force linearizability checker (uninstrumented)
#include "fmc_int.h"

static fmc_op_t ops[FMC_MAXOPS];
static int nops;
static uint32_t hclk;

int fmc_op_begin(int kind, intptr_t arg) {
  if (nops >= FMC_MAXOPS) fmc_finish(V_ENGINE, "history too long");
  int i = nops++;
  ops[i].thread = fmc_tid();
  ops[i].kind = kind;
  ops[i].arg = arg;
  ops[i].ret = 0;
  ops[i].inv = ++hclk;
  ops[i].resp = 0;
  return i;
}
void fmc_op_end(int idx, intptr_t ret) {
  ops[idx].ret = ret;
  ops[idx].resp = ++hclk;
}
int fmc_nops(void) { return nops; }
fmc_op_t* fmc_ops(void) { return ops; }

void fmc_history_obs(void) {
  // outcome = sequence of (thread, kind, arg, ret) in invocation order plus the precedence relation
  for (int i = 0; i < nops; i++) {
    fmc_obs(((uint64_t)ops[i].thread << 56) ^ ((uint64_t)ops[i].kind << 48) ^ (uint64_t)ops[i].arg * 31 ^ (uint64_t)ops[i].ret * 131);
    for (int j = 0; j < nops; j++)
      if (ops[j].resp && ops[j].resp < ops[i].inv) fmc_obs(i * 64 + j);
  }
}

void fmc_history_dump(char* buf, size_t n) {
  size_t o = 0;
  buf[0] = 0;
  for (int i = 0; i < nops && o + 60 < n; i++)
    o += snprintf(buf + o, n - o, "%sT%d:k%d(%ld)=%ld[%u,%u]", i ? " " : "", ops[i].thread, ops[i].kind, (long)ops[i].arg, (long)ops[i].ret, ops[i].inv, ops[i].resp);
}

// Wing & Gong search with a small memo of failed (done-set, state) pairs
#define MEMO 8192
static struct { uint32_t mask; uint64_t h; uint8_t used; } memo[MEMO];
static fmc_spec_fn g_spec;
static size_t g_ss;

static uint64_t hbytes(const void* p, size_t n) {
  uint64_t h = 1469598103934665603ull;
  for (size_t i = 0; i < n; i++) h = (h ^ ((const uint8_t*)p)[i]) * 1099511628211ull;
  return h;
}

static int search(uint32_t done, const void* state) {
  int all = 1;
  for (int i = 0; i < nops; i++)
    if (!(done & (1u << i)) && ops[i].resp) all = 0;
  if (all) return 1;
  uint64_t h = hbytes(state, g_ss) ^ ((uint64_t)done * 0x9E3779B97F4A7C15ull);
  uint32_t slot = (uint32_t)(h % MEMO);
  if (memo[slot].used && memo[slot].mask == done && memo[slot].h == h) return 0;
  for (int i = 0; i < nops; i++) {
    if (done & (1u << i)) continue;
    int minimal = 1;
    for (int j = 0; j < nops; j++)
      if (j != i && !(done & (1u << j)) && ops[j].resp && ops[j].resp < ops[i].inv) { minimal = 0; break; }
    if (!minimal) continue;
    uint8_t copy[256];
    memcpy(copy, state, g_ss);
    if (g_spec(copy, &ops[i], ops[i].resp != 0)) {
      if (search(done | (1u << i), copy)) return 1;
    }
  }
  memo[slot].used = 1;
  memo[slot].mask = done;
  memo[slot].h = h;
  return 0;
}

int fmc_linearizable(fmc_spec_fn spec, const void* init, size_t ss) {
  if (ss > 256) fmc_finish(V_ENGINE, "spec state too large");
  memset(memo, 0, sizeof memo);
  g_spec = spec;
  g_ss = ss;
  return search(0, init);
}
