// fmc runtime: serialising scheduler behind the ThreadSanitizer ABI.
// Compiled WITHOUT instrumentation. Exactly one kernel thread runs at a time;
// a thread can lose the CPU only inside one of the callbacks below, i.e.
// immediately before a visible operation of the instrumented code.
#include "fmc_int.h"

trace_t* TR;
shared_t* SH;
volatile int fmc_is_exploring = 0;
int fmc_in_child = 0;
unsigned fmc_omask = FMC_O_HEAP | FMC_O_STACK;
int fmc_tracing = 0;

// configuration (set by the explorer before fork)
uint8_t* fmc_prefix;
int fmc_prefix_len;
uint64_t fmc_horizon = 300000;
int fmc_use_site_filter = 1;
int fmc_tso = 0;
uint32_t fmc_L0 = 300, fmc_L = 4000;

fstack_t fmc_fstacks[MAXFSTACK];
int fmc_nfstacks;
void* fmc_cur_ctx[MAXT];

#define SBMAX 16
typedef struct {
  void* addr;
  int sz;
  uint8_t newv[16], oldv[16];
} sbe_t;
// per-thread FIFO store buffer (x86-TSO). Empty unless the explorer chose to delay a
// store; from then on every later store of the thread queues behind it until a flush.
typedef struct {
  int n, pending;  // pending: the last entry's new value is captured at the next callback
  sbe_t e[SBMAX];
} sbuf_t;

static struct th {
  volatile int alive, yielded, idle, joining;
  int fut;
  uint64_t yield_epoch;
  void* (*fn)(void*);
  void* arg;
  uint32_t nop, run, spin_rounds, newaddr, bloom_reset;
  uint64_t rset[64], wset[64];  // granules read since the last yield-return / snapshot taken when yielding (4096-bit Bloom)
  int woken, wait_any;
  uint64_t bloom[1024];  // addresses touched since the last progress (65536 bits)
  uint64_t seen_epoch;
  uintptr_t sp;
  void* pw_addr;
  uint8_t pw_old[16];
  int pw_sz;
  // the last plain shared writes of this thread: location and the value it held BEFORE that write
  struct { void* a; uint8_t before[16]; } tog[8];
  int togn;
  sbuf_t sb;
} T[MAXT];
static volatile int nth = 1, cur = 0;
static __thread int me = 0;
static uint64_t progress_epoch = 1;
static void* last_pc;
static int tick_fd = -1;

#define TRC(...) do { if (fmc_tracing) fmc_rawlog(__VA_ARGS__); } while (0)

void fmc_rawlog(const char* fmt, ...) {
  char b[600];
  va_list ap;
  va_start(ap, fmt);
  int n = vsnprintf(b, sizeof b, fmt, ap);
  va_end(ap);
  if (n > (int)sizeof b) n = sizeof b;
  syscall(SYS_write, 2, b, n);
}

static long fut(int* a, int op, int v) { return syscall(SYS_futex, a, op, v, NULL, NULL, 0); }
static void park(int t) {
  while (__atomic_load_n(&T[t].fut, __ATOMIC_ACQUIRE) == 0) fut(&T[t].fut, FUTEX_WAIT, 0);
  __atomic_store_n(&T[t].fut, 0, __ATOMIC_RELEASE);
}
static void unpark(int t) {
  __atomic_store_n(&T[t].fut, 1, __ATOMIC_RELEASE);
  fut(&T[t].fut, FUTEX_WAKE, 1);
}

void fmc_finish(int v, const char* msg) {
  if (TR) {
    if (msg && !TR->msg[0]) strncpy(TR->msg, msg, sizeof TR->msg - 1);
    TR->verdict = v;
  }
  syscall(SYS_exit_group, 0);
  __builtin_unreachable();
}

void fmc_fail(const char* fmt, ...) {
  va_list ap;
  va_start(ap, fmt);
  vsnprintf(TR->msg, sizeof TR->msg, fmt, ap);
  va_end(ap);
  fmc_finish(V_FAIL, 0);
}

void fmc_log(const char* fmt, ...) {
  if (!fmc_tracing) return;
  char b[400];
  va_list ap;
  va_start(ap, fmt);
  vsnprintf(b, sizeof b, fmt, ap);
  va_end(ap);
  fmc_rawlog("[%lu] T%d LOG %s\n", (unsigned long)(TR ? TR->steps : 0), me, b);
}

int fmc_tid(void) { return me; }
int fmc_tso_mode(void) { return fmc_tso; }
int fmc_nthreads(void) { return nth; }
int fmc_exploring(void) { return fmc_is_exploring; }
uint64_t fmc_steps(void) { return TR ? TR->steps : 0; }
void fmc_obs(uint64_t v) { TR->obs = (TR->obs ^ v) * 0x100000001b3ull + 0x9e37; }
void fmc_oracles(unsigned m) { fmc_omask = m; }
unsigned fmc_oracle_mask(void) { return fmc_omask; }
uintptr_t fmc_thread_sp(int t) { return T[t].sp; }
uint64_t fmc_vticks(void) { return TR->vticks; }
void fmc_count(uint64_t n) { TR->user_cases += n; }
void fmc_add_steps(uint64_t n) { TR->steps += n; }

// ---------------------------------------------------------------- TSO overlay
static void progress_at(void* addr, int len);
static void sb_flush(struct th* t) {
  // owner is running: memory already holds its values; they become visible to the others now
  for (int i = 0; i < t->sb.n; i++) progress_at(t->sb.e[i].addr, t->sb.e[i].sz);
  t->sb.n = 0;
  t->sb.pending = 0;
}
static void sb_append(struct th* t, void* addr, int sz, const void* newv) {
  if (t->sb.n >= SBMAX) sb_flush(t);
  sbe_t* e = &t->sb.e[t->sb.n++];
  e->addr = addr;
  e->sz = sz;
  memcpy(e->oldv, addr, sz);
  if (newv) memcpy(e->newv, newv, sz);
  else t->sb.pending = 1;
}
static void sb_hide(struct th* t) {  // owner leaves the cpu: memory shows the global view
  for (int i = t->sb.n - 1; i >= 0; i--) memcpy(t->sb.e[i].addr, t->sb.e[i].oldv, t->sb.e[i].sz);
}
static void sb_show(struct th* t) {  // owner gets the cpu: it sees its own buffered stores
  for (int i = 0; i < t->sb.n; i++) {
    memcpy(t->sb.e[i].oldv, t->sb.e[i].addr, t->sb.e[i].sz);
    memcpy(t->sb.e[i].addr, t->sb.e[i].newv, t->sb.e[i].sz);
  }
}
static void capture_pending(struct th* t);
static int noprogress_rounds;
static inline uint32_t rbit(void* a) { return (uint32_t)((((uintptr_t)a >> 3) * 0x9E3779B97F4A7C15ull) >> 52); }
// a value-changing write to `addr` (or, with addr==0, an event nobody can attribute to an address):
// wakes the yielded threads that read that location during the iteration after which they yielded
static void wake_readers(void* addr, int len) {
  for (int k = 0; k < nth; k++) {
    if (k == me || !T[k].alive || !T[k].yielded || T[k].woken) continue;
    if (!addr) { T[k].woken = 1; continue; }
    for (int off = 0; off < (len > 0 ? len : 1); off += 8) {
      uint32_t b = rbit((char*)addr + off);
      if (T[k].wset[b >> 6] & (1ull << (b & 63))) { T[k].woken = 1; break; }
    }
    if (len > 8) {
      uint32_t b = rbit((char*)addr + len - 1);
      if (T[k].wset[b >> 6] & (1ull << (b & 63))) T[k].woken = 1;
    }
  }
}
static void progress_at(void* addr, int len);
static void progress(void) { progress_at(0, 0); }
static void progress_at(void* addr, int len) {
  wake_readers(addr, len);
  noprogress_rounds = 0;
  progress_epoch++;
  T[me].nop = 0;
  T[me].spin_rounds = 0;
  T[me].bloom_reset = 1;
}
// a thread that touches addresses it has not touched since the last progress is
// computing (e.g. filling a buffer), not spinning
static inline void touch(struct th* t, void* addr) {
  if (t->bloom_reset) {
    memset(t->bloom, 0, sizeof t->bloom);
    t->bloom_reset = 0;
    t->newaddr = 0;
  }
  uint64_t h = ((uintptr_t)addr >> 3) * 0x9E3779B97F4A7C15ull;
  uint32_t bit = (uint32_t)(h >> 48);
  uint64_t m = 1ull << (bit & 63);
  if (!(t->bloom[bit >> 6] & m)) {
    t->bloom[bit >> 6] |= m;
    t->newaddr++;
  }
}
void fmc_progress(void) { if (fmc_is_exploring) progress(); }

static void capture_pending(struct th* t) {
  if (t->pw_addr) {
    if (memcmp(t->pw_addr, t->pw_old, t->pw_sz) != 0) {
      // a write that puts back the value the location held before this thread's previous write
      // to it (A->B->A->B..., e.g. an idle thread swapping its two run-queue pointers on every
      // look for work) is the signature of a loop that is going nowhere: it is not progress
      int k = 0, toggle = 0;
      while (k < t->togn && t->tog[k].a != t->pw_addr) k++;
      if (k < t->togn) {
        toggle = memcmp(t->tog[k].before, t->pw_addr, t->pw_sz) == 0;
      } else {
        k = t->togn < 8 ? t->togn++ : (int)(TR->steps & 7);
        t->tog[k].a = t->pw_addr;
      }
      memcpy(t->tog[k].before, t->pw_old, t->pw_sz);
      if (!toggle) {
        if (fmc_tracing > 1) fmc_rawlog("[%lu] T%d progress (plain write %p)\n", (unsigned long)TR->steps, me, t->pw_addr);
        progress_at(t->pw_addr, t->pw_sz);
      }
    }
    t->pw_addr = 0;
  }
  if (t->sb.pending) {
    t->sb.pending = 0;
    sbe_t* e = &t->sb.e[t->sb.n - 1];
    memcpy(e->newv, e->addr, e->sz);
    TRC("[%lu] T%d store to %p buffered (%d in buffer)\n", (unsigned long)TR->steps, me, e->addr, t->sb.n);
  }
}

static void do_switch(int to) {
  if (to == me) return;
  TRC("[%lu] switch T%d -> T%d (T%d was about to execute pc=%p)\n", (unsigned long)TR->steps, me, to, me, last_pc);
  if (fmc_tso) {
    sb_hide(&T[me]);
    sb_show(&T[to]);
  }
  TR->switches++;
  T[to].run = 0;
  T[to].yielded = 0;
  cur = to;
  unpark(to);
  park(me);
}

// ---------------------------------------------------------------- choice points
static int choose(int kind, unsigned mask, int deflt, int flags, uint32_t site) {
  uint32_t i = TR->ncp;
  if (i >= MAXCP) fmc_finish(V_HORIZON, "too many choice points");
  int chosen = deflt;
  if ((int)i < fmc_prefix_len) {
    chosen = fmc_prefix[i];
    if (chosen > 15 || !((mask >> chosen) & 1)) {
      char b[200];
      snprintf(b, sizeof b, "replay divergence at choice point %u: want %d, enabled mask %x kind %d", i, chosen, mask, kind);
      fmc_finish(V_DIVERGE, b);
    }
  }
  TRC("[%lu] T%d cp#%u kind=%d mask=%x default=%d chosen=%d pc=%p\n", (unsigned long)TR->steps, me, i, kind, mask, deflt, chosen, last_pc);
  TR->cp[i] = (cp_t){(uint8_t)kind, (uint8_t)chosen, (uint8_t)deflt, (uint8_t)flags, (uint16_t)mask, (uint16_t)site};
  TR->ncp = i + 1;
  return chosen;
}

// ---------------------------------------------------------------- conflict map
typedef struct {
  uintptr_t g;
  uint32_t site[MAXT];
  uint8_t acc, wr;
} gran_t;
#define GRAN_SLOTS (1 << 18)
static gran_t* G;
static inline uint32_t sitehash(void* pc) {
  uintptr_t x = (uintptr_t)pc;
  return (uint32_t)((x * 0x9E3779B97F4A7C15ull) >> (64 - SITEBITS));
}
static void mark_site(uint32_t s) {
  if (!SH->site_next[s]) {
    SH->site_next[s] = 1;
    SH->new_sites = 1;
  }
}
// returns 1 if the granule was touched by another thread before
static int note_access(void* a, int w, uint32_t sh) {
  uintptr_t g = (uintptr_t)a >> 3;
  uint32_t h = (uint32_t)((g * 0x9E3779B97F4A7C15ull) >> 46);
  for (int i = 0; i < 256; i++) {
    gran_t* e = &G[(h + i) & (GRAN_SLOTS - 1)];
    if (e->g == 0) {
      e->g = g;
      e->acc = 1 << me;
      e->wr = w ? 1 << me : 0;
      e->site[me] = sh;
      return 0;
    }
    if (e->g == g) {
      int other = e->acc & ~(1 << me);
      int conflict = 0;
      if (other) {
        if (w) conflict = 1;
        else if (e->wr & ~(1 << me)) conflict = 1;
      }
      if (conflict) {
        TR->conflicts++;
        mark_site(sh);
        for (int t = 0; t < MAXT; t++)
          if (t != me && (e->acc & (1 << t))) mark_site(e->site[t]);
      }
      e->acc |= 1 << me;
      if (w) e->wr |= 1 << me;
      e->site[me] = sh;
      return other != 0;
    }
  }
  fmc_finish(V_ENGINE, "conflict map full");
}

// ---------------------------------------------------------------- oracles on accesses
static void oracle_access(void* addr, int sz, int w, void* pc) {
  if (fmc_omask & FMC_O_HEAP) {
    int s = fmc_shadow_state(addr, sz);
    if (s > 0) {
      char info[160];
      fmc_block_info(addr, info, sizeof info);
      char b[300];
      snprintf(b, sizeof b, "heap: %s of %d bytes at %p (%s) pc=%p T%d; %s", w ? "write" : "read", sz, addr,
               s == 2 ? "freed block" : "red zone/unallocated", pc, me, info);
      fmc_finish(V_FAIL, b);
    }
  }
  if ((fmc_omask & FMC_O_STACK) && fmc_nfstacks) {
    uintptr_t a = (uintptr_t)addr;
    for (int i = 0; i < fmc_nfstacks; i++) {
      fstack_t* f = &fmc_fstacks[i];
      if (!f->alive || a < f->lo || a >= f->hi) continue;
      if (f->ctx == fmc_cur_ctx[me]) break;  // own stack
      if (f->hot && f->running_on != me) {
        char b[300];
        snprintf(b, sizeof b, "stack: %s at %p by T%d pc=%p touches the stack of fiber #%d after that fiber was made runnable (its frames may be gone: use after return)",
                 w ? "write" : "read", addr, me, pc, f->id);
        fmc_finish(V_FAIL, b);
      }
      uintptr_t sp = f->running_on >= 0 ? T[f->running_on].sp : (uintptr_t)*f->sp_slot;
      if (sp >= f->lo && sp <= f->hi && a + 128 < sp) {
        char b[300];
        snprintf(b, sizeof b, "stack: %s at %p by T%d pc=%p is %ld bytes below the live stack of another fiber (dead frame: use after return)",
                 w ? "write" : "read", addr, me, pc, (long)(sp - a));
        fmc_finish(V_FAIL, b);
      }
      break;
    }
  }
}

// ---------------------------------------------------------------- scheduler core
static int only_alive(int t) {
  for (int k = 0; k < nth; k++)
    if (k != t && T[k].alive) return 0;
  return 1;
}
static int eligible_other(int t) {
  if (!T[t].alive) return 0;
  if (T[t].joining) return only_alive(t);  // blocked in fmc_wait_threads until everybody else exited
  if (!T[t].yielded) return 1;
  if (SH->precise && !T[t].wait_any) return T[t].woken;
  return T[t].yield_epoch < progress_epoch;
}
static int others_alive(void) {
  for (int t = 0; t < nth; t++)
    if (t != me && T[t].alive) return 1;
  return 0;
}
static void do_yield(int idle);

static int in_round, round_master;
static void do_switch(int to);
static void quiescent(void) {
  // every kernel thread is idle (or spinning without any possible progress).
  // Idle kernel threads are not blocked for ever: their poll times out (5 ms) and they look
  // for work again (load balance, run queues, events). Before the state counts as quiescent
  // every idle thread gets such a timeout iteration, twice in a row without any progress.
  if (nth >= 2 && noprogress_rounds < 2) {
    uint64_t e0 = progress_epoch;
    noprogress_rounds++;
    in_round = 1;
    round_master = me;
    T[me].yielded = 1;
    for (int k = 0; k < nth && progress_epoch == e0; k++)
      if (k != me && T[k].alive && T[k].yielded && T[k].idle) {
        TRC("[%lu] poll timeout: idle T%d looks for work again\n", (unsigned long)TR->steps, k);
        do_switch(k);
      }
    in_round = 0;
    T[me].yielded = 0;
    if (progress_epoch != e0) noprogress_rounds = 0;
    return;
  }
  noprogress_rounds = 0;
  if (fmc_on_quiescent && fmc_on_quiescent()) {
    progress();
    return;
  }
  fmc_finish(V_DEADLOCK, "stuck: every kernel thread is idle or spinning and the harness has not finished");
}

// default successor at a cost-free yield: a thread that was pre-empted (or has not started yet)
// before threads that gave the cpu up themselves - otherwise two idle threads can keep handing
// the cpu to each other while a pre-empted third one never runs again
static int pick_default(unsigned mask) {
  for (int k = 0; k < nth; k++)
    if (((mask >> k) & 1) && !T[k].yielded) return k;
  return __builtin_ctz(mask);
}

static void do_yield(int kind) {  // 0 polite (spinning), 1 idle (would block), 2 forced by the fairness budget
  int idle = kind == 1, forced = kind == 2;
  struct th* t = &T[me];
  if (!fmc_is_exploring) return;
  capture_pending(t);
  if (fmc_tso) sb_flush(t);
  t->nop = 0;
  if (t->seen_epoch != progress_epoch) {
    t->spin_rounds = 0;
    t->seen_epoch = progress_epoch;
  }
  // what this thread read during the iteration that ends here decides what can wake it up again;
  // harness-level yields (kind 3) wait on ghost state and forced yields (kind 2) wait for nothing
  t->wait_any = kind >= 2;
  memcpy(t->wset, t->rset, sizeof t->wset);
  memset(t->rset, 0, sizeof t->rset);
  t->woken = 0;
  if (in_round && me != round_master && idle) {
    t->yielded = 1;
    t->idle = 1;
    t->yield_epoch = progress_epoch;
    do_switch(round_master);
    t->yielded = 0;
    return;
  }
  if (nth < 2 || !others_alive()) {
    if (idle) quiescent();
    else if (!forced && ++t->spin_rounds > 8) { t->spin_rounds = 0; quiescent(); }
    return;
  }
  t->yielded = 1;
  t->idle = idle;
  t->yield_epoch = forced ? 0 : progress_epoch;
  unsigned mask = 0;
  for (int k = 0; k < nth; k++)
    if (k != me && eligible_other(k)) mask |= 1u << k;
  if (!mask) {
    int allidle = 1;
    for (int k = 0; k < nth; k++)
      if (T[k].alive && !(T[k].yielded && T[k].idle)) allidle = 0;
    if (allidle) {
      quiescent();
      t->yielded = 0;
      return;
    }
    if (idle) {
      for (int k = 0; k < nth; k++)
        if (k != me && T[k].alive && T[k].yielded && !T[k].idle) {
          TRC("[%lu] idle T%d hands cpu to spinner T%d\n", (unsigned long)TR->steps, me, k);
          T[k].nop = 0;
          do_switch(k);
          t->yielded = 0;
          return;
        }
    }
    // polite yielder, nobody else can use the cpu
    if (!forced && ++t->spin_rounds > 8) {
      int others_idle = 1;
      for (int k = 0; k < nth; k++)
        if (k != me && T[k].alive && !(T[k].yielded || T[k].joining)) others_idle = 0;
      if (others_idle) {
        // hand over to another spinner once, else declare quiescence
        for (int k = 0; k < nth; k++)
          if (k != me && T[k].alive && T[k].yielded && !T[k].idle && T[k].spin_rounds <= 8) {
            do_switch(k);
            t->yielded = 0;
            return;
          }
        t->spin_rounds = 0;
        for (int k = 0; k < nth; k++) T[k].spin_rounds = 0;
        quiescent();
      }
    }
    t->yielded = 0;
    return;
  }
  t->spin_rounds = 0;
  int chosen = pick_default(mask);
  if (__builtin_popcount(mask) > 1) chosen = choose(K_YIELD, mask, chosen, 0, 0);
  do_switch(chosen);
  t->yielded = 0;
}

static struct { uintptr_t lo, hi; } focus_r[24];
static int nfocus;
void fmc_focus(void* p, unsigned long n) {
  if (nfocus < 24) { focus_r[nfocus].lo = (uintptr_t)p; focus_r[nfocus].hi = (uintptr_t)p + n; nfocus++; }
}
// harness set-up that must not be interleaved with anything (placing fibers on the run queues of
// kernel threads that have not started yet): while on, the running thread is never switched out
static int noswitch;
void fmc_atomic(int on) { noswitch = on; }
int fmc_in_atomic(void) { return noswitch; }
static inline int in_focus(void* a, int sz) {
  uintptr_t x = (uintptr_t)a;
  for (int i = 0; i < nfocus; i++)
    if (x + (unsigned)sz > focus_r[i].lo && x < focus_r[i].hi) return 1;
  return 0;
}
static int env_observer;  // set by the callers that are about to observe the environment (epoll, descriptor syscalls)
static int on_stack(void* a) {
  uintptr_t x = (uintptr_t)a;
  if (x >= 0x7f0000000000ull) return 1;  // kernel-thread stacks
  for (int i = 0; i < fmc_nfstacks; i++)
    if (x >= fmc_fstacks[i].lo && x < fmc_fstacks[i].hi) return 1;
  return 0;
}
static void sched_point(void* addr, int sz, int w, int always, void* pc, int flush, int plainw) {
  if (!fmc_is_exploring) return;
  int observes_env = env_observer || (SH->envall && always);
  env_observer = 0;
  struct th* t = &T[me];
  if (cur != me) {
    fmc_rawlog("fmc: thread %d running while cur=%d\n", me, cur);
    fmc_finish(V_ENGINE, "scheduler invariant broken");
  }
  capture_pending(t);
  if (++TR->steps > fmc_horizon) fmc_finish(V_HORIZON, "horizon");
  t->sp = (uintptr_t)__builtin_frame_address(0);
  last_pc = pc;
  uint32_t sh = sitehash(pc);
  int shared_loc = 1;
  if (addr) {
    oracle_access(addr, sz, w, pc);
    if (nth >= 2) {
      shared_loc = note_access(addr, w, sh);
      if (sz > 8) shared_loc |= note_access((char*)addr + 8, w, sh);
    } else {
      shared_loc = 0;  // a single kernel thread: nothing to conflict with
    }
  }
  if (addr) {
    uint32_t b_ = rbit(addr);
    t->rset[b_ >> 6] |= 1ull << (b_ & 63);
    if (sz > 8) { b_ = rbit((char*)addr + 8); t->rset[b_ >> 6] |= 1ull << (b_ & 63); }
  }
  if (fmc_tracing > 1) fmc_rawlog("[%lu] T%d %s %p sz=%d pc=%p\n", (unsigned long)TR->steps, me, w ? "W" : "R", addr, sz, pc);
  if (always == 2) always = SH->atomicfilter ? 0 : 1;
  int in_S = always || !fmc_use_site_filter || SH->nofilter || SH->site_shared[sh];
  // focused runs: pre-emption only before operations on the declared object - and before the
  // operation that is about to force a delayed store out of this thread's buffer (the last moment
  // at which the others can still run without seeing it)
  if (SH->focus && nfocus && !observes_env && !(addr && in_focus(addr, sz)) && !(fmc_tso && flush && t->sb.n)) in_S = 0;
  if (noswitch) in_S = 0;
  // a buffered store may be committed early at any later callback of its owner; it is
  // committed at the latest when the owner is about to execute a flushing operation,
  // i.e. AFTER the scheduling decision below (others may run while it is still buffered)
  if (fmc_tso && !flush && t->sb.n && others_alive()) {
    if (choose(K_COMMIT, 3, 0, 0, sh) == 1) sb_flush(t);
  }
  if (addr) touch(t, addr);
  int nop_hit = ++t->nop > fmc_L0;
  if (noswitch) { nop_hit = 0; t->nop = 0; t->run = 0; }
  if (nop_hit && t->newaddr) {  // still reaching new memory: not a spin, restart the window
    t->newaddr = 0;
    t->nop = 0;
    nop_hit = 0;
    if (t->run > fmc_L) memset(t->bloom, 0, sizeof t->bloom);
  }
  if (nop_hit || ++t->run > fmc_L) {
    t->run = 0;
    TRC("[%lu] T%d forced yield (%s)\n", (unsigned long)TR->steps, me, nop_hit ? "no progress" : "time slice");
    // no value-changing shared write for L0 operations = spinning (polite yield, counts
    // towards livelock detection); an exhausted time slice is just a free switch
    do_yield(nop_hit ? 0 : 2);
  } else if (nth >= 2 && in_S) {
    unsigned mask = 1u << me;
    for (int k = 0; k < nth; k++)
      if (k != me && eligible_other(k)) mask |= 1u << k;
    // an injected environment event (timer tick) commutes with everything that does not observe the
    // environment, so it only has to be offered immediately before operations that do
    if (&fmc_env_nalts && fmc_env_alt && observes_env)
      for (int k = 0; k < fmc_env_nalts && k < 8; k++) mask |= 1u << (8 + k);
    if (mask != (1u << me)) {
      int c = choose(K_SCHED, mask, me, 1, sh);
      if (c >= 8) {
        fmc_env_alt(c - 8);
        progress();
        // the event has happened; the current thread may still be pre-empted before its operation
        mask = 1u << me;
        for (int k = 0; k < nth; k++)
          if (k != me && eligible_other(k)) mask |= 1u << k;
        c = mask != (1u << me) ? choose(K_SCHED, mask, me, 1, sh) : me;
      }
      if (c != me && c < 8) do_switch(c);
    }
  } else if (nth < 2 && observes_env && &fmc_env_nalts && fmc_env_alt && fmc_env_nalts > 0) {
    unsigned mask = 1u << me;
    for (int k = 0; k < fmc_env_nalts && k < 8; k++) mask |= 1u << (8 + k);
    int c = choose(K_SCHED, mask, me, 1, sh);
    if (c >= 8) {
      fmc_env_alt(c - 8);
      progress();
    }
  }
  if (fmc_tso && flush) sb_flush(t);
  if (w && addr) {
    if (plainw && sz <= 16) {
      if (shared_loc) {
        t->pw_addr = addr;
        t->pw_sz = sz;
        memcpy(t->pw_old, addr, sz);
      }
      if (fmc_tso && others_alive()) {
        // -weakrmw: the buffer outlives read-modify-writes, calls and returns; a buffered store to a stack
        // slot would be overlaid onto whatever uninstrumented code (call/push) has put there since. Stack
        // stores are therefore never buffered in that mode: they commit the buffer early (always legal)
        int stk = SH->weakrmw && on_stack(addr);
        if (t->sb.n && stk) sb_flush(t);
        else if (t->sb.n) sb_append(t, addr, sz, 0);  // FIFO: queues behind the delayed store
        else if (in_S && !stk && choose(K_DELAY, 3, 0, 0, sh) == 1) sb_append(t, addr, sz, 0);
      }
    } else if (plainw && shared_loc) {
      progress();
    }
  }
}

void fmc_sched_here(void* pc) { sched_point(0, 0, 0, 1, pc, 0, 0); }
void fmc_polite_yield(void) { do_yield(0); }

// ---------------------------------------------------------------- hooks from the library / harness
void fmc_spin_hint(void) {
  if (!fmc_is_exploring) return;
  if (++TR->steps > fmc_horizon) fmc_finish(V_HORIZON, "horizon");
  T[me].sp = (uintptr_t)__builtin_frame_address(0);
  do_yield(0);
}
void fmc_yield(void) {
  if (!fmc_is_exploring) return;
  if (++TR->steps > fmc_horizon) fmc_finish(V_HORIZON, "horizon");
  T[me].sp = (uintptr_t)__builtin_frame_address(0);
  do_yield(3);
}
void fmc_fence(void) { sched_point(0, 0, 0, 1, __builtin_return_address(0), 1, 0); }
void fmc_rmw16(volatile void* a) {
  sched_point((void*)a, 16, 1, 1, __builtin_return_address(0), 1, 0);
  if (fmc_is_exploring) {  // progress is decided at the next callback by comparing the 16 bytes
    struct th* t = &T[me];
    t->pw_addr = (void*)a;
    t->pw_sz = 16;
    memcpy(t->pw_old, (void*)a, 16);
  }
}
// a scheduling point at which the harness itself is about to observe the environment (e.g. reads the
// virtual clock): environment deviations are offered here too
void fmc_env_observe(void) {
  env_observer = 1;
  sched_point(0, 0, 0, 1, __builtin_return_address(0), 0, 0);
}
int fmc_env_choose(int nalts) {
  if (!fmc_is_exploring || nalts < 2) return 0;
  capture_pending(&T[me]);
  unsigned mask = 0;
  for (int k = 0; k < nalts && k < 8; k++) mask |= 1u << k;
  return choose(K_ENV, mask, 0, 0, 0);
}

// thread 0 blocks (is never scheduled) until every other kernel thread has exited
void fmc_wait_threads(void) {
  if (!fmc_is_exploring) return;
  struct th* t = &T[me];
  capture_pending(t);
  if (fmc_tso) sb_flush(t);
  t->joining = 1;
  t->yielded = 1;
  t->idle = 1;
  while (others_alive()) {
    unsigned mask = 0;
    for (int k = 0; k < nth; k++)
      if (k != me && eligible_other(k)) mask |= 1u << k;
    if (!mask) {
      for (int k = 0; k < nth; k++)
        if (k != me && T[k].alive && T[k].yielded && !T[k].idle) mask |= 1u << k;
      if (!mask) quiescent();
      if (!mask) continue;
    }
    int chosen = pick_default(mask);
    if (__builtin_popcount(mask) > 1) chosen = choose(K_YIELD, mask, chosen, 0, 0);
    t->yielded = 1;  // (do_switch clears it for the thread that is switched to)
    t->idle = 1;
    do_switch(chosen);
  }
  t->joining = 0;
  t->yielded = 0;
  t->idle = 0;
}

// free enumeration of an input / program parameter: every value in [0,n) is explored at no cost
int fmc_input(int n) {
  if (!fmc_is_exploring || n < 2) return 0;
  capture_pending(&T[me]);
  unsigned mask = 0;
  for (int k = 0; k < n && k < 16; k++) mask |= 1u << k;
  return choose(K_INPUT, mask, 0, 0, 0);
}

void fmc_begin(void) {
  if (me != 0) fmc_finish(V_ENGINE, "fmc_begin not on thread 0");
  T[0].alive = 1;
  cur = 0;
  TR->maxthreads = nth;
  fmc_is_exploring = 1;
}
void fmc_end(void) {
  fmc_is_exploring = 0;
  fmc_finish(V_OK, 0);
}

// ---------------------------------------------------------------- threads
static void thread_exit_switch(void) {
  struct th* t = &T[me];
  capture_pending(t);
  sb_flush(t);
  t->alive = 0;
  progress();
  unsigned mask = 0;
  for (int k = 0; k < nth; k++)
    if (k != me && T[k].alive && !T[k].joining) mask |= 1u << k;
  if (!mask)
    for (int k = 0; k < nth; k++)
      if (k != me && T[k].alive) mask |= 1u << k;
  if (!mask) fmc_finish(V_FAIL, "all threads exited without fmc_end");
  int chosen = pick_default(mask);
  if (__builtin_popcount(mask) > 1) chosen = choose(K_YIELD, mask, chosen, 0, 0);
  TRC("[%lu] T%d exits -> T%d\n", (unsigned long)TR->steps, me, chosen);
  if (fmc_tso) sb_show(&T[chosen]);
  TR->switches++;
  T[chosen].run = 0;
  T[chosen].yielded = 0;
  cur = chosen;
  unpark(chosen);
}

static void install_altstack(void);
static void sched_point(void* addr, int sz, int w, int always, void* pc, int flush, int plainw);
static void* tramp(void* p) {
  int id = (int)(intptr_t)p;
  me = id;
  install_altstack();
  park(id);
  void* r = T[id].fn(T[id].arg);
  if (fmc_is_exploring) {
    sched_point(0, 0, 0, 1, (void*)tramp, 0, 0);  // others may still run before this thread's last store drains
    thread_exit_switch();
  }
  else T[id].alive = 0;
  // never return into libc's thread exit while others run: just sleep forever
  for (;;) syscall(SYS_pause);
  return r;
}

int pthread_create(pthread_t* th, const pthread_attr_t* a, void* (*fn)(void*), void* arg) {
  static int (*real)(pthread_t*, const pthread_attr_t*, void* (*)(void*), void*);
  if (!real) real = dlsym(RTLD_NEXT, "pthread_create");
  if (!fmc_in_child) return real(th, a, fn, arg);
  int id = nth;
  if (id >= MAXT) fmc_finish(V_ENGINE, "too many threads");
  T[id].fn = fn;
  T[id].arg = arg;
  T[id].alive = 1;
  nth = id + 1;
  if (TR && (uint32_t)nth > TR->maxthreads) TR->maxthreads = nth;
  return real(th, a, tramp, (void*)(intptr_t)id);
}

// ---------------------------------------------------------------- environment
int epoll_wait(int ep, struct epoll_event* ev, int n, int to) {
  if (!fmc_is_exploring) return syscall(SYS_epoll_wait, ep, ev, n, to > 0 ? 0 : to);
  env_observer = 1;
  sched_point(0, 0, 0, 1, __builtin_return_address(0), 1, 0);
  int r = syscall(SYS_epoll_wait, ep, ev, n, 0);
  if (r == 0 && to != 0) {
    if (++TR->steps > fmc_horizon) fmc_finish(V_HORIZON, "horizon");
    T[me].sp = (uintptr_t)__builtin_frame_address(0);
    do_yield(1);
    env_observer = 1;  // the poll after waking up observes the environment again
    sched_point(0, 0, 0, 1, __builtin_return_address(0), 1, 0);
    r = syscall(SYS_epoll_wait, ep, ev, n, 0);
  }
  if (r > 0) progress();
  if (fmc_is_exploring) for (int i = 0; i < r; i++) TRC("[%lu] T%d epoll_wait -> fd %d events %x\n", (unsigned long)TR->steps, me, ev[i].data.fd, ev[i].events);
  return r;
}
int epoll_ctl(int ep, int op, int fd, struct epoll_event* e) {
  sched_point(0, 0, 0, 1, __builtin_return_address(0), 1, 0);
  int r = syscall(SYS_epoll_ctl, ep, op, fd, e);
  if (fmc_is_exploring) TRC("[%lu] T%d epoll_ctl op %d fd %d events %x -> %d errno %d\n", (unsigned long)TR->steps, me, op, fd, e ? e->events : 0, r, r ? errno : 0);
  if (fmc_is_exploring) progress();
  return r;
}
int timerfd_create(int c, int f) {
  if (!fmc_in_child) return syscall(SYS_timerfd_create, c, f);
  tick_fd = eventfd(0, EFD_NONBLOCK);
  return tick_fd;
}
int timerfd_settime(int fd, int fl, const struct itimerspec* n, struct itimerspec* o) {
  if (!fmc_in_child || fd != tick_fd) return syscall(SYS_timerfd_settime, fd, fl, n, o);
  if (o) memset(o, 0, sizeof *o);
  return 0;
}
void fmc_tick(uint64_t k) {
  if (tick_fd < 0 || k == 0) return;
  TR->vticks += k;
  TRC("[%lu] tick +%lu (virtual ticks now %lu)\n", (unsigned long)TR->steps, (unsigned long)k, (unsigned long)TR->vticks);
  if (syscall(SYS_write, tick_fd, &k, 8) != 8) fmc_finish(V_ENGINE, "tick write failed");
}
static int fmc_maxfd = 64;
int getrlimit(__rlimit_resource_t r, struct rlimit* l) {
  if (fmc_in_child && r == RLIMIT_NOFILE) {
    l->rlim_cur = l->rlim_max = fmc_maxfd;
    return 0;
  }
  return syscall(SYS_prlimit64, 0, r, NULL, l);
}
// scheduling point for the interposed libc I/O calls (engine/fmc_env.c, shared object)
void fmc_env_point(void) {
  env_observer = 1;
  sched_point(0, 0, 0, 1, __builtin_return_address(0), 1, 0);
  if (fmc_is_exploring) progress();
}

// ---------------------------------------------------------------- crash handling
static void crash_handler(int sig, siginfo_t* si, void* uc_) {
  ucontext_t* uc = (ucontext_t*)uc_;
  void* pc = (void*)uc->uc_mcontext.gregs[REG_RIP];
  if (TR && TR->verdict == V_RUN) {
    snprintf(TR->msg, sizeof TR->msg, "crash: signal %d pc=%p addr=%p T%d", sig, pc, si->si_addr, me);
    TR->verdict = V_CRASH;
  }
  syscall(SYS_exit_group, 0);
}
static void install_altstack(void) {
  stack_t ss;
  ss.ss_sp = (void*)syscall(SYS_mmap, 0, 65536, PROT_READ | PROT_WRITE, MAP_PRIVATE | MAP_ANONYMOUS, -1, 0);
  ss.ss_size = 65536;
  ss.ss_flags = 0;
  sigaltstack(&ss, 0);
}
void fmc_child_setup(void) {
  fmc_in_child = 1;
  // descriptor numbers must be a function of the execution, not of the worker process
  syscall(SYS_close_range, 3, ~0u, 0);
  G = (gran_t*)syscall(SYS_mmap, 0, sizeof(gran_t) * GRAN_SLOTS, PROT_READ | PROT_WRITE, MAP_PRIVATE | MAP_ANONYMOUS | MAP_NORESERVE, -1, 0);
  install_altstack();
  struct sigaction sa;
  memset(&sa, 0, sizeof sa);
  sa.sa_sigaction = crash_handler;
  sa.sa_flags = SA_SIGINFO | SA_ONSTACK;
  int sigs[] = {SIGSEGV, SIGBUS, SIGABRT, SIGILL, SIGFPE};
  for (unsigned i = 0; i < sizeof sigs / sizeof sigs[0]; i++) sigaction(sigs[i], &sa, 0);
}

// ---------------------------------------------------------------- watch log
// a harness may watch one 8-byte granule: every atomic operation the real code
// performs on it is logged (thread, kind, size, offset, old, new) together with
// harness notes, giving the exact memory-level history of e.g. a lock word.
static uintptr_t watch_g;
static fmc_wev_t wlog_[FMC_MAXWLOG];
static int nwlog;
void fmc_watch(void* a) { watch_g = (uintptr_t)a >> 3; }
void fmc_watch_note(int code, uint64_t v) {
  if (nwlog < FMC_MAXWLOG) wlog_[nwlog++] = (fmc_wev_t){me, 'N', 0, code, v, 0};
}
int fmc_watch_n(void) { return nwlog; }
fmc_wev_t* fmc_watch_log(void) { return wlog_; }
static inline void wl(int kind, volatile void* a, int sz, uint64_t old, uint64_t nw) {
  if (watch_g && ((uintptr_t)a >> 3) == watch_g && nwlog < FMC_MAXWLOG)
    wlog_[nwlog++] = (fmc_wev_t){me, kind, sz, (int)((uintptr_t)a & 7), old, nw};
}

// ---------------------------------------------------------------- tsan ABI
void __tsan_init(void) {}
void __tsan_func_entry(void* pc) {}
void __tsan_func_exit(void) {}
void* __tsan_create_fiber(unsigned f) { return (void*)1; }
void __tsan_destroy_fiber(void* f) {}
void __tsan_switch_to_fiber(void* f, unsigned fl) {}
void* __tsan_get_current_fiber(void) { return (void*)2; }
void __tsan_set_fiber_name(void* f, const char* n) {}
#define RA __builtin_return_address(0)
static void range_point(void* a, unsigned long n, int w, void* pc) {
  if (!fmc_is_exploring) return;
  sched_point(a, n > 16 ? 16 : (int)n, w, 0, pc, w, 0);
  if (w) progress_at(a, (int)(n > 4096 ? 4096 : n));
  if (n > 16 && (fmc_omask & FMC_O_HEAP)) {
    int s = fmc_shadow_state(a, n);
    if (s > 0) {
      char b[200];
      snprintf(b, sizeof b, "heap: range %s of %lu bytes at %p touches %s pc=%p", w ? "write" : "read", n, a, s == 2 ? "freed block" : "red zone", pc);
      fmc_finish(V_FAIL, b);
    }
  }
}
void __tsan_write_range(void* a, unsigned long n) { range_point(a, n, 1, RA); }
void __tsan_read_range(void* a, unsigned long n) { range_point(a, n, 0, RA); }
#define RW(n)                                                              \
  void __tsan_read##n(void* a) { sched_point(a, n, 0, 0, RA, 0, 0); }      \
  void __tsan_write##n(void* a) { sched_point(a, n, 1, 0, RA, 0, 1); }     \
  void __tsan_unaligned_read##n(void* a) { sched_point(a, n, 0, 0, RA, 0, 0); } \
  void __tsan_unaligned_write##n(void* a) { sched_point(a, n, 1, 0, RA, 0, 1); }
RW(1) RW(2) RW(4) RW(8) RW(16)
void __tsan_read_write1(void* a) { sched_point(a, 1, 1, 0, RA, 0, 1); }
void __tsan_read_write2(void* a) { sched_point(a, 2, 1, 0, RA, 0, 1); }
void __tsan_read_write4(void* a) { sched_point(a, 4, 1, 0, RA, 0, 1); }
void __tsan_read_write8(void* a) { sched_point(a, 8, 1, 0, RA, 0, 1); }
void __tsan_read_write16(void* a) { sched_point(a, 16, 1, 0, RA, 0, 1); }
void __tsan_vptr_update(void** a, void* v) {}
void __tsan_vptr_read(void** a) {}

#define SEQ 5
// returns 1 if the (non seq-cst) atomic store goes into the store buffer
static int atomic_store_delay(void* a, int sz, int mo, uint32_t sh, const void* newv) {
  struct th* t = &T[me];
  if (!fmc_is_exploring || !fmc_tso || mo == SEQ || !others_alive()) return 0;
  if (SH->weakrmw && on_stack(a)) { sb_flush(t); return 0; }
  if (t->sb.n || choose(K_DELAY, 3, 0, 0, sh) == 1) {
    sb_append(t, a, sz, newv);
    return 1;
  }
  return 0;
}
// -weakrmw (C11 rather than x86 semantics for read-modify-writes): an RMW whose memory order has no
// release component (relaxed/consume/acquire) does not order the thread's earlier stores, so it does
// not drain a non-empty store buffer - unless a buffered store is to the same location (coherence).
// The RMW itself acts on memory at once. x86 hardware never does this (a locked instruction drains the
// buffer) but the language allows it, and a compiler may sink plain stores below such an operation.
static int sb_overlaps(struct th* t, const volatile void* a, int sz) {
  for (int i = 0; i < t->sb.n; i++)
    if ((uintptr_t)t->sb.e[i].addr < (uintptr_t)a + sz && (uintptr_t)a < (uintptr_t)t->sb.e[i].addr + t->sb.e[i].sz) return 1;
  return 0;
}
#define RMWF(a, sz, mo) (!SH->weakrmw || (mo) >= 3 || sb_overlaps(&T[me], (a), (sz)))
#define AT(bits, Ty)                                                                                              \
  Ty __tsan_atomic##bits##_load(const volatile Ty* a, int mo) {                                                   \
    sched_point((void*)a, bits / 8, 0, 2, RA, 0, 0);                                                              \
    Ty r_ = __atomic_load_n(a, __ATOMIC_SEQ_CST);                                                                 \
    wl('L', a, bits / 8, r_, r_);                                                                                 \
    return r_;                                                                                                    \
  }                                                                                                               \
  void __tsan_atomic##bits##_store(volatile Ty* a, Ty v, int mo) {                                                \
    sched_point((void*)a, bits / 8, 1, 2, RA, mo == SEQ, 0);                                                      \
    Ty old = *a;                                                                                                  \
    if (old != v && fmc_is_exploring) progress_at((void*)a, bits / 8);                                                                \
    atomic_store_delay((void*)a, bits / 8, mo, sitehash(RA), &v);                                                 \
    wl('S', a, bits / 8, old, v);                                                                                 \
    __atomic_store_n(a, v, __ATOMIC_SEQ_CST);                                                                     \
  }                                                                                                               \
  Ty __tsan_atomic##bits##_exchange(volatile Ty* a, Ty v, int mo) {                                               \
    sched_point((void*)a, bits / 8, 1, 2, RA, RMWF(a, bits / 8, mo), 0);                                                              \
    if (*a != v && fmc_is_exploring) progress_at((void*)a, bits / 8);                                                                 \
    wl('X', a, bits / 8, *a, v);                                                                                  \
    return __atomic_exchange_n(a, v, __ATOMIC_SEQ_CST);                                                           \
  }                                                                                                               \
  Ty __tsan_atomic##bits##_fetch_add(volatile Ty* a, Ty v, int mo) {                                              \
    sched_point((void*)a, bits / 8, 1, 2, RA, RMWF(a, bits / 8, mo), 0);                                                              \
    if (v && fmc_is_exploring) progress_at((void*)a, bits / 8);                                                                       \
    wl('A', a, bits / 8, *a, (Ty)(*a + v));                                                                       \
    return __atomic_fetch_add(a, v, __ATOMIC_SEQ_CST);                                                            \
  }                                                                                                               \
  Ty __tsan_atomic##bits##_fetch_sub(volatile Ty* a, Ty v, int mo) {                                              \
    sched_point((void*)a, bits / 8, 1, 2, RA, RMWF(a, bits / 8, mo), 0);                                                              \
    if (v && fmc_is_exploring) progress_at((void*)a, bits / 8);                                                                       \
    wl('A', a, bits / 8, *a, (Ty)(*a - v));                                                                       \
    return __atomic_fetch_sub(a, v, __ATOMIC_SEQ_CST);                                                            \
  }                                                                                                               \
  Ty __tsan_atomic##bits##_fetch_and(volatile Ty* a, Ty v, int mo) {                                              \
    sched_point((void*)a, bits / 8, 1, 2, RA, RMWF(a, bits / 8, mo), 0);                                                              \
    if ((Ty)(*a & v) != *a && fmc_is_exploring) progress_at((void*)a, bits / 8);                                                      \
    return __atomic_fetch_and(a, v, __ATOMIC_SEQ_CST);                                                            \
  }                                                                                                               \
  Ty __tsan_atomic##bits##_fetch_or(volatile Ty* a, Ty v, int mo) {                                               \
    sched_point((void*)a, bits / 8, 1, 2, RA, RMWF(a, bits / 8, mo), 0);                                                              \
    if ((Ty)(*a | v) != *a && fmc_is_exploring) progress_at((void*)a, bits / 8);                                                      \
    return __atomic_fetch_or(a, v, __ATOMIC_SEQ_CST);                                                             \
  }                                                                                                               \
  Ty __tsan_atomic##bits##_fetch_xor(volatile Ty* a, Ty v, int mo) {                                              \
    sched_point((void*)a, bits / 8, 1, 2, RA, RMWF(a, bits / 8, mo), 0);                                                              \
    if (v && fmc_is_exploring) progress_at((void*)a, bits / 8);                                                                       \
    return __atomic_fetch_xor(a, v, __ATOMIC_SEQ_CST);                                                            \
  }                                                                                                               \
  Ty __tsan_atomic##bits##_fetch_nand(volatile Ty* a, Ty v, int mo) {                                             \
    sched_point((void*)a, bits / 8, 1, 2, RA, RMWF(a, bits / 8, mo), 0);                                                              \
    if (fmc_is_exploring) progress_at((void*)a, bits / 8);                                                                            \
    return __atomic_fetch_nand(a, v, __ATOMIC_SEQ_CST);                                                           \
  }                                                                                                               \
  Ty __tsan_atomic##bits##_compare_exchange_val(volatile Ty* a, Ty c, Ty v, int mo, int fmo) {                    \
    sched_point((void*)a, bits / 8, 1, 2, RA, RMWF(a, bits / 8, mo), 0);                                                              \
    if (*a == c && c != v && fmc_is_exploring) progress_at((void*)a, bits / 8);                                                       \
    __atomic_compare_exchange_n(a, &c, v, 0, __ATOMIC_SEQ_CST, __ATOMIC_SEQ_CST);                                 \
    return c;                                                                                                     \
  }                                                                                                               \
  int __tsan_atomic##bits##_compare_exchange_strong(volatile Ty* a, Ty* c, Ty v, int mo, int fmo) {               \
    sched_point((void*)a, bits / 8, 1, 2, RA, RMWF(a, bits / 8, mo), 0);                                                              \
    if (*a == *c && *c != v && fmc_is_exploring) progress_at((void*)a, bits / 8);                                                     \
    wl(*a == *c ? 'C' : 'c', a, bits / 8, *a, v);                                                                 \
    return __atomic_compare_exchange_n(a, c, v, 0, __ATOMIC_SEQ_CST, __ATOMIC_SEQ_CST);                           \
  }                                                                                                               \
  int __tsan_atomic##bits##_compare_exchange_weak(volatile Ty* a, Ty* c, Ty v, int mo, int fmo) {                 \
    sched_point((void*)a, bits / 8, 1, 2, RA, RMWF(a, bits / 8, mo), 0);                                                              \
    if (*a == *c && *c != v && fmc_is_exploring) progress_at((void*)a, bits / 8);                                                     \
    wl(*a == *c ? 'C' : 'c', a, bits / 8, *a, v);                                                                 \
    return __atomic_compare_exchange_n(a, c, v, 0, __ATOMIC_SEQ_CST, __ATOMIC_SEQ_CST);                           \
  }
AT(8, uint8_t) AT(16, uint16_t) AT(32, uint32_t) AT(64, uint64_t)
void __tsan_atomic_thread_fence(int mo) {
  sched_point(0, 0, 0, 1, RA, mo == SEQ, 0);
  __atomic_thread_fence(__ATOMIC_SEQ_CST);
}
void __tsan_atomic_signal_fence(int mo) {}
