// internal definitions shared by the pieces of the fmc runtime
#ifndef FMC_INT_H
#define FMC_INT_H
#define _GNU_SOURCE
#include <dlfcn.h>
#include <errno.h>
#include <fcntl.h>
#include <linux/futex.h>
#include <poll.h>
#include <pthread.h>
#include <signal.h>
#include <stdarg.h>
#include <stddef.h>
#include <stdint.h>
#include <stdio.h>
#include <stdlib.h>
#include <string.h>
#include <sys/epoll.h>
#include <sys/eventfd.h>
#include <sys/mman.h>
#include <sys/personality.h>
#include <sys/resource.h>
#include <sys/syscall.h>
#include <sys/timerfd.h>
#include <sys/wait.h>
#include <time.h>
#include <unistd.h>

#include "fmc.h"

#define MAXT 4
#define MAXCP 60000
#define SITEBITS 16
#define NSITES (1 << SITEBITS)

enum { K_SCHED = 1, K_YIELD = 2, K_DELAY = 3, K_COMMIT = 4, K_ENV = 5, K_INPUT = 6 };
enum {
  V_RUN = 0, V_OK = 1, V_FAIL = 2, V_DEADLOCK = 3, V_HORIZON = 4,
  V_DIVERGE = 5, V_CRASH = 6, V_TIMEOUT = 7, V_ENGINE = 8
};

typedef struct {
  uint8_t kind, chosen, deflt, flags;  // flags bit0: current thread could continue
  uint16_t mask, site;
} cp_t;

typedef struct {
  volatile int verdict;
  char msg[300];
  uint32_t ncp, switches, conflicts, maxthreads;
  uint64_t steps, obs, vticks, user_cases;
  cp_t cp[MAXCP];
} trace_t;

typedef struct {
  uint8_t site_shared[NSITES];  // frozen for the current pass
  uint8_t site_next[NSITES];    // discoveries
  volatile int new_sites;
  volatile int precise;   // yielded threads are re-enabled only by writes to locations they read in their last iteration
  volatile int atomicfilter;  // atomics are choice points only at conflict-observed sites (like plain accesses)
  volatile int envall;    // offer environment deviations at every unconditional scheduling point (no reduction)
  volatile int nofilter;  // discovery pass: every instrumented access is a choice point
  volatile int weakrmw;   // -weakrmw: RMWs without release semantics do not drain the store buffer (C11 view)
  volatile int focus;     // -focus: pre-emption alternatives only before operations on ranges declared with fmc_focus()
} shared_t;

typedef struct {
  int len;
  uint8_t prefix[MAXCP];
  trace_t tr;
} wslot_t;

// scheduler state visible to the other runtime pieces
extern trace_t* TR;
extern shared_t* SH;
extern volatile int fmc_is_exploring;
extern int fmc_in_child;
extern unsigned fmc_omask;
extern int fmc_tracing;

void fmc_finish(int verdict, const char* msg) __attribute__((noreturn));
void fmc_rawlog(const char* fmt, ...) __attribute__((format(printf, 1, 2)));
void fmc_sched_here(void* pc);  // an unconditional scheduling point
void fmc_polite_yield(void);
uintptr_t fmc_thread_sp(int tid);

// arena
void fmc_arena_setup(void);
int fmc_shadow_state(const void* p, size_t n);  // 0 ok,1 redzone/unallocated,2 freed,-1 not arena
const char* fmc_block_info(const void* p, char* buf, size_t n);

// fiber stack registry (filled by fmc_wrap.c)
typedef struct {
  uintptr_t lo, hi;
  void*** sp_slot;  // address of ctx_stack_pointer
  int running_on;   // kernel thread or -1
  int alive;
  void* ctx;
  int hot;  // the fiber has been made runnable or is running: nobody else may touch its stack any more
  int id;
} fstack_t;
#define MAXFSTACK 1024
extern fstack_t fmc_fstacks[MAXFSTACK];
extern int fmc_nfstacks;
extern void* fmc_cur_ctx[MAXT];  // context currently executing on each kernel thread

#endif
