// Per-execution bump arena with shadow memory (uninstrumented).
// Inside a forked execution every malloc/calloc/realloc/free of the process
// goes here: addresses are a function of the schedule, blocks are never
// reused, freed blocks are poisoned, and every instrumented access is checked
// against the shadow (live / red zone / freed).
#include "fmc_int.h"

extern void* __libc_malloc(size_t);
extern void* __libc_calloc(size_t, size_t);
extern void* __libc_realloc(void*, size_t);
extern void __libc_free(void*);
extern void* __libc_memalign(size_t, size_t);

#define ARENA_BASE ((uintptr_t)0x200000000000ull)
#define ARENA_SIZE ((uintptr_t)1 << 30)
#define SHADOW_BASE ((uintptr_t)0x210000000000ull)
#define RZ 32

static uint8_t* const arena = (uint8_t*)ARENA_BASE;
static uint8_t* const shadow = (uint8_t*)SHADOW_BASE;
static uintptr_t bump = 0;
static uint64_t n_alloc, n_free, live_bytes;
void fmc_heap_stats(uint64_t* allocs, uint64_t* frees, uint64_t* live) { *allocs = n_alloc; *frees = n_free; *live = live_bytes; }
static int arena_ready = 0;

typedef struct {
  uint64_t size;       // user size
  uint32_t magic;
  uint32_t freed;
  void* alloc_pc;
  void* free_pc;
} hdr_t;  // lives in the front red zone (32 bytes)
#define MAGIC 0xA11C0DE5u

void fmc_arena_setup(void) {
  if (arena_ready) return;
  void* a = mmap((void*)ARENA_BASE, ARENA_SIZE, PROT_READ | PROT_WRITE,
                 MAP_PRIVATE | MAP_ANONYMOUS | MAP_NORESERVE | MAP_FIXED_NOREPLACE, -1, 0);
  void* s = mmap((void*)SHADOW_BASE, ARENA_SIZE / 8, PROT_READ | PROT_WRITE,
                 MAP_PRIVATE | MAP_ANONYMOUS | MAP_NORESERVE | MAP_FIXED_NOREPLACE, -1, 0);
  if (a != (void*)ARENA_BASE || s != (void*)SHADOW_BASE) {
    fmc_rawlog("fmc: cannot map arena\n");
    _exit(2);
  }
  bump = 0;
  arena_ready = 1;
}

static inline int in_arena(const void* p) {
  return (uintptr_t)p >= ARENA_BASE && (uintptr_t)p < ARENA_BASE + ARENA_SIZE;
}

static void* arena_alloc(size_t n, size_t align, void* pc) {
  if (align < 16) align = 16;
  size_t un = (n + 15) & ~(size_t)15;
  if (un == 0) un = 16;
  uintptr_t start = bump + RZ;
  start = (start + align - 1) & ~(align - 1);
  uintptr_t end = start + un + RZ;
  if (end > ARENA_SIZE) {
    fmc_finish(V_HORIZON, "arena exhausted");
  }
  bump = end;
  hdr_t* h = (hdr_t*)(arena + start - RZ);
  n_alloc++;
  live_bytes += n;
  h->size = n;
  h->magic = MAGIC;
  h->freed = 0;
  h->alloc_pc = pc;
  h->free_pc = 0;
  memset(shadow + start / 8, 1, un / 8);
  return arena + start;
}

static hdr_t* hdr_of(const void* p) {
  hdr_t* h = (hdr_t*)((uint8_t*)p - RZ);
  return h;
}

static void arena_free(void* p, void* pc) {
  hdr_t* h = hdr_of(p);
  if (h->magic != MAGIC) {
    char b[200];
    snprintf(b, sizeof b, "heap: free of a pointer that is not a block start (%p) from pc=%p", p, pc);
    fmc_finish(V_FAIL, b);
  }
  if (h->freed) {
    char b[200];
    snprintf(b, sizeof b, "heap: double free of block allocated at pc=%p first freed at pc=%p", h->alloc_pc, h->free_pc);
    fmc_finish(V_FAIL, b);
  }
  h->freed = 1;
  n_free++;
  live_bytes -= h->size;
  h->free_pc = pc;
  size_t un = (h->size + 15) & ~(size_t)15;
  if (un == 0) un = 16;
  memset(p, 0xDD, un);
  memset(shadow + ((uintptr_t)p - ARENA_BASE) / 8, 2, un / 8);
}

int fmc_shadow_state(const void* p, size_t n) {
  if (!in_arena(p)) return -1;
  uintptr_t o = (uintptr_t)p - ARENA_BASE;
  if (o >= bump) return 1;
  uintptr_t g0 = o / 8, g1 = (o + (n ? n - 1 : 0)) / 8;
  for (uintptr_t g = g0; g <= g1; g++) {
    uint8_t s = shadow[g];
    if (s == 1) continue;
    return s == 2 ? 2 : 1;
  }
  return 0;
}

int fmc_heap_is_live(const void* p) { return fmc_shadow_state(p, 1) == 0; }

// find the block containing (or nearest below) p, for diagnostics
const char* fmc_block_info(const void* p, char* buf, size_t n) {
  buf[0] = 0;
  if (!in_arena(p)) return buf;
  uintptr_t o = ((uintptr_t)p - ARENA_BASE) & ~(uintptr_t)15;
  for (int k = 0; k < 16384 && o >= RZ; k++, o -= 16) {
    hdr_t* h = (hdr_t*)(arena + o - RZ);
    if (h->magic == MAGIC && (o - RZ) % 16 == 0) {
      uintptr_t off = (uintptr_t)p - (ARENA_BASE + o);
      snprintf(buf, n, "block size=%lu off=%ld alloc_pc=%p free_pc=%p", (unsigned long)h->size, (long)off, h->alloc_pc, h->free_pc);
      return buf;
    }
  }
  return buf;
}

#define RA __builtin_return_address(0)

void* malloc(size_t n) {
  if (!fmc_in_child) return __libc_malloc(n);
  return arena_alloc(n, 16, RA);
}
void* calloc(size_t a, size_t b) {
  if (!fmc_in_child) return __libc_calloc(a, b);
  size_t n = a * b;
  return arena_alloc(n, 16, RA);  // fresh arena memory is zero
}
void free(void* p) {
  if (!p) return;
  if (!in_arena(p)) {
    __libc_free(p);
    return;
  }
  arena_free(p, RA);
}
void* realloc(void* p, size_t n) {
  if (p && !in_arena(p)) {
    if (!fmc_in_child) return __libc_realloc(p, n);
    // libc block carried over the fork: copy what we can know nothing about; never happens in harnesses
    void* q = arena_alloc(n, 16, RA);
    return q;
  }
  if (!fmc_in_child) return __libc_realloc(p, n);
  void* q = arena_alloc(n, 16, RA);
  if (p) {
    hdr_t* h = hdr_of(p);
    size_t c = h->size < n ? h->size : n;
    memcpy(q, p, c);
    arena_free(p, RA);
  }
  return q;
}
void* memalign(size_t al, size_t n) {
  if (!fmc_in_child) return __libc_memalign(al, n);
  return arena_alloc(n, al, RA);
}
void* aligned_alloc(size_t al, size_t n) { return memalign(al, n); }
int posix_memalign(void** out, size_t al, size_t n) {
  *out = memalign(al, n);
  return *out ? 0 : ENOMEM;
}
void* valloc(size_t n) { return memalign(4096, n); }
size_t malloc_usable_size(void* p) {
  if (!p) return 0;
  if (in_arena(p)) return hdr_of(p)->size;
  return 0;
}
