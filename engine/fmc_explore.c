// fmc explorer: iterative deviation-bounded depth-first enumeration of schedules
// by prefix replay, one forked child per execution, N worker processes.
#include "fmc_int.h"

extern uint8_t* fmc_prefix;
extern int fmc_prefix_len;
extern uint64_t fmc_horizon;
extern int fmc_use_site_filter;
extern int fmc_tso;
extern uint32_t fmc_L0, fmc_L;
extern void fmc_child_setup(void);

static const char* vname[] = {"run", "ok", "FAIL", "DEADLOCK", "HORIZON", "DIVERGE", "CRASH", "TIMEOUT", "ENGINE"};

// ---- parameters -----------------------------------------------------------
static struct { char name[32]; int val; } params[32];
static int nparams;
int fmc_param(const char* name, int deflt) {
  for (int i = 0; i < nparams; i++)
    if (!strcmp(params[i].name, name)) return params[i].val;
  return deflt;
}

typedef struct { int len; uint8_t p, d, e, y; uint8_t* c; } pfx_t;

static int W = 16, P = 1, D = 0, E = 0;
static int Y = 255;  // bound on non-default choices at cost-free yield points (only matters with 3+ kernel threads)
static long cap = 50000000;
static double deadline_s = 1e9;
static int child_timeout = 20;
static wslot_t* slots;
static int ctl_w[64], done_r, done_w;
static pid_t wpid[64];
static struct timespec t0;

static double now_s(void) {
  struct timespec t;
  clock_gettime(CLOCK_MONOTONIC, &t);
  return (t.tv_sec - t0.tv_sec) + (t.tv_nsec - t0.tv_nsec) / 1e9;
}

static void run_child(wslot_t* s) {
  // in the forked child
  TR = &s->tr;
  fmc_prefix = s->prefix;
  fmc_prefix_len = s->len;
  alarm(child_timeout);
  fmc_child_setup();
  harness_main();
  fmc_finish(V_FAIL, "harness_main returned without fmc_end");
}

static void exec_in_slot(wslot_t* s) {
  memset(&s->tr, 0, offsetof(trace_t, cp));
  pid_t p = fork();
  if (p == 0) run_child(s);
  int st = 0;
  waitpid(p, &st, 0);
  if (WIFSIGNALED(st)) {
    if (WTERMSIG(st) == SIGALRM) {
      s->tr.verdict = V_TIMEOUT;
      snprintf(s->tr.msg, sizeof s->tr.msg, "child exceeded %d s wall clock", child_timeout);
    } else if (s->tr.verdict == V_RUN) {
      s->tr.verdict = V_CRASH;
      snprintf(s->tr.msg, sizeof s->tr.msg, "crash: killed by signal %d", WTERMSIG(st));
    }
  } else if (s->tr.verdict == V_RUN) {
    s->tr.verdict = V_CRASH;
    snprintf(s->tr.msg, sizeof s->tr.msg, "crash: child exited with status %d without a verdict", WEXITSTATUS(st));
  }
}

static void worker_loop(int w, int ctl_r) {
  for (;;) {
    char c;
    int r = read(ctl_r, &c, 1);
    if (r <= 0 || c == 'q') _exit(0);
    exec_in_slot(&slots[w]);
    uint8_t id = w;
    if (write(done_w, &id, 1) != 1) _exit(0);
  }
}

static void start_workers(void) {
  int dp[2];
  if (pipe(dp)) exit(2);
  done_r = dp[0];
  done_w = dp[1];
  for (int w = 0; w < W; w++) {
    int cp[2];
    if (pipe(cp)) exit(2);
    pid_t p = fork();
    if (p == 0) {
      close(cp[1]);
      close(done_r);
      for (int k = 0; k < w; k++) close(ctl_w[k]);
      worker_loop(w, cp[0]);
    }
    close(cp[0]);
    ctl_w[w] = cp[1];
    wpid[w] = p;
  }
}
static void stop_workers(void) {
  for (int w = 0; w < W; w++) {
    if (write(ctl_w[w], "q", 1) != 1) {}
    close(ctl_w[w]);
  }
  for (int w = 0; w < W; w++) waitpid(wpid[w], 0, 0);
  close(done_r);
  close(done_w);
}

// cost of taking alternative alt at choice point c
static void altcost(const cp_t* c, int alt, int* dp, int* dd, int* de, int* dy) {
  *dp = *dd = *de = *dy = 0;
  if (alt == c->deflt) return;
  switch (c->kind) {
    case K_SCHED: if (alt >= 8) *de = 1; else *dp = 1; break;
    case K_YIELD: if (alt >= 8) *de = 1; else *dy = 1; break;
    case K_DELAY: *dd = 1; break;
    case K_COMMIT: break;
    case K_ENV: *de = 1; break;
  }
}

// ---- failure bookkeeping --------------------------------------------------
typedef struct { int verdict; char msg[300]; char raw[300]; long count; int len; uint8_t* choices; int confirmed; int p, d, e; uint64_t obs; uint8_t* sites; } failure_t;
static failure_t fails[64];
static failure_t first_inconclusive;
static int nfails;
static long total_failing;

static void normalise(const char* in, char* out, size_t n) {
  // signature = message with hex addresses and long numbers blanked, so equal bugs group together
  size_t o = 0;
  for (size_t i = 0; in[i] && o + 2 < n; i++) {
    if (in[i] == '0' && in[i + 1] == 'x') {
      out[o++] = '#';
      i += 2;
      while ((in[i] >= '0' && in[i] <= '9') || (in[i] >= 'a' && in[i] <= 'f')) i++;
      i--;
      continue;
    }
    out[o++] = in[i];
  }
  out[o] = 0;
}

static failure_t* record_failure(trace_t* tr, int p, int d, int e) {
  char sig[300];
  normalise(tr->msg, sig, sizeof sig);
  total_failing++;
  for (int i = 0; i < nfails; i++)
    if (fails[i].verdict == tr->verdict && !strcmp(fails[i].msg, sig)) {
      fails[i].count++;
      return 0;
    }
  if (nfails >= 64) return 0;
  failure_t* f = &fails[nfails++];
  f->verdict = tr->verdict;
  strcpy(f->msg, sig);
  strncpy(f->raw, tr->msg, sizeof f->raw - 1);
  f->count = 1;
  f->len = tr->ncp;
  f->choices = malloc(tr->ncp + 1);
  for (uint32_t k = 0; k < tr->ncp; k++) f->choices[k] = tr->cp[k].chosen;
  f->p = p; f->d = d; f->e = e;
  f->obs = tr->obs;
  f->sites = malloc(NSITES);
  memcpy(f->sites, SH->site_shared, NSITES);
  return f;
}

// ---- one pass -------------------------------------------------------------
typedef struct {
  long execs, nontrivial, states, ok, inconclusive;
  uint64_t user_cases;
  uint64_t steps;
  long maxcp;
  int nobs;
  uint64_t obsset[4096];
  int complete;
  int closed;
  char samples[3][700];
  int nsamples;
} pass_t;

static void add_obs(pass_t* ps, uint64_t o) {
  for (int k = 0; k < ps->nobs; k++)
    if (ps->obsset[k] == o) return;
  if (ps->nobs < 4096) ps->obsset[ps->nobs++] = o;
}

static void sample(pass_t* ps, trace_t* tr) {
  if (ps->nsamples >= 3 || tr->switches < 2) return;
  if (ps->nsamples == 1 && ps->execs < 50) return;
  if (ps->nsamples == 2 && ps->execs < 500) return;
  char* b = ps->samples[ps->nsamples++];
  size_t o = 0;
  o += snprintf(b + o, 700 - o, "verdict=%s cps=%u steps=%lu:", vname[tr->verdict], tr->ncp, (unsigned long)tr->steps);
  for (uint32_t k = 0; k < tr->ncp && o < 600; k++) {
    cp_t* c = &tr->cp[k];
    if (c->chosen == c->deflt && c->kind != K_YIELD && c->kind != K_INPUT) continue;
    const char* kn = c->kind == K_SCHED ? (c->chosen >= 8 ? "env" : "preempt") : c->kind == K_YIELD ? "yield" : c->kind == K_DELAY ? "delay-store" : c->kind == K_COMMIT ? "commit" : c->kind == K_INPUT ? "input" : "envchoice";
    o += snprintf(b + o, 700 - o, " cp%u:%s->%d", k, kn, c->chosen);
  }
}

static int stop_on_fail = 0;
static long fail_stop_count = 50000;  // keep exploring past failures (they are classified by signature), up to this many

static void run_pass(pass_t* ps) {
  memset(ps, 0, sizeof *ps);
  SH->new_sites = 0;
  long scap = 1 << 20;
  pfx_t* stack = malloc(sizeof(pfx_t) * scap);
  long sp = 0;
  stack[sp++] = (pfx_t){0, 0, 0, 0, 0, 0};
  pfx_t inflight[64];
  int busy[64] = {0}, nbusy = 0;
  int stopping = 0;
  ps->complete = 1;
  while (sp > 0 || nbusy > 0) {
    while (!stopping && sp > 0 && nbusy < W) {
      int w = 0;
      while (busy[w]) w++;
      pfx_t pf = stack[--sp];
      slots[w].len = pf.len;
      if (pf.len) memcpy(slots[w].prefix, pf.c, pf.len);
      inflight[w] = pf;
      busy[w] = 1;
      nbusy++;
      if (write(ctl_w[w], "r", 1) != 1) exit(2);
    }
    if (nbusy == 0) break;
    uint8_t id;
    if (read(done_r, &id, 1) != 1) exit(2);
    int w = id;
    busy[w] = 0;
    nbusy--;
    pfx_t pf = inflight[w];
    trace_t* tr = &slots[w].tr;
    ps->execs++;
    ps->steps += tr->steps;
    ps->user_cases += tr->user_cases;
    if ((long)tr->ncp > ps->maxcp) ps->maxcp = tr->ncp;
    if (tr->conflicts) ps->nontrivial++;
    ps->states += (long)tr->ncp - pf.len + 1;
    int v = tr->verdict;
    if (v == V_OK) {
      ps->ok++;
      add_obs(ps, tr->obs);
      sample(ps, tr);
    } else if (v == V_FAIL || v == V_DEADLOCK || v == V_CRASH) {
      record_failure(tr, pf.p, pf.d, pf.e);
      if (stop_on_fail || total_failing >= fail_stop_count || nfails >= 48) { stopping = 1; ps->complete = 0; }
    } else if (v == V_DIVERGE || v == V_ENGINE) {
      fprintf(stderr, "fmc: ENGINE ERROR %s: %s\n", vname[v], tr->msg);
      record_failure(tr, pf.p, pf.d, pf.e);
      stopping = 1;
      ps->complete = 0;
    } else {  // HORIZON / TIMEOUT: inconclusive
      ps->inconclusive++;
      ps->complete = 0;
      if (ps->inconclusive <= 3) fprintf(stderr, "fmc: inconclusive execution (%s: %s) prefix len %d\n", vname[v], tr->msg, pf.len);
      if (!first_inconclusive.choices) {  // keep one for inspection (never counted as a failure)
        first_inconclusive.verdict = v;
        strncpy(first_inconclusive.msg, tr->msg, sizeof first_inconclusive.msg - 1);
        first_inconclusive.len = tr->ncp;
        first_inconclusive.choices = malloc(tr->ncp + 1);
        for (uint32_t k = 0; k < tr->ncp; k++) first_inconclusive.choices[k] = tr->cp[k].chosen;
        first_inconclusive.sites = malloc(NSITES);
        memcpy(first_inconclusive.sites, SH->site_shared, NSITES);
      }
    }
    // expand
    if (!stopping) {
      int cp_ = pf.p, cd = pf.d, ce = pf.e, cy = pf.y;
      for (uint32_t i = pf.len; i < tr->ncp; i++) {
        cp_t* c = &tr->cp[i];
        for (int alt = 0; alt < 16; alt++) {
          if (alt == c->chosen || !((c->mask >> alt) & 1)) continue;
          int dp, dd, de, dy;
          altcost(c, alt, &dp, &dd, &de, &dy);
          if (cp_ + dp > P || cd + dd > D || ce + de > E || cy + dy > Y) continue;
          if (sp >= scap) {
            scap *= 2;
            stack = realloc(stack, sizeof(pfx_t) * scap);
          }
          uint8_t* nc = malloc(i + 1);
          for (uint32_t k = 0; k < i; k++) nc[k] = tr->cp[k].chosen;
          nc[i] = alt;
          stack[sp++] = (pfx_t){(int)i + 1, (uint8_t)(cp_ + dp), (uint8_t)(cd + dd), (uint8_t)(ce + de), (uint8_t)(cy + dy), nc};
        }
        int dp, dd, de, dy;
        altcost(c, c->chosen, &dp, &dd, &de, &dy);
        cp_ += dp; cd += dd; ce += de; cy += dy;
      }
    }
    free(pf.c);
    if (ps->execs >= cap || now_s() > deadline_s) {
      if (sp > 0) ps->complete = 0;
      stopping = 1;
    }
  }
  for (long k = 0; k < sp; k++) free(stack[k].c);
  free(stack);
  ps->closed = !SH->new_sites;
}

static int count_sites(void) {
  int n = 0;
  for (int k = 0; k < NSITES; k++) n += SH->site_shared[k];
  return n;
}

// ---- replay files -----------------------------------------------------------
static void write_replay(const char* path, failure_t* f, int argc, char** argv) {
  FILE* o = fopen(path, "w");
  if (!o) return;
  fprintf(o, "fmc-replay 1\nverdict %s\nmsg %s\nargs", vname[f->verdict], f->msg);
  for (int i = 1; i < argc; i++)
    if (strncmp(argv[i], "-json=", 6) && strncmp(argv[i], "-out=", 5)) fprintf(o, " %s", argv[i]);
  fprintf(o, "\nsites");
  for (int k = 0; k < NSITES; k++)
    if (f->sites[k]) fprintf(o, " %d", k);
  fprintf(o, "\nchoices ");
  for (int k = 0; k < f->len; k++) fputc("0123456789abcdef"[f->choices[k] & 15], o);
  fprintf(o, "\n");
  fclose(o);
}

static int confirm(failure_t* f) {
  // replay twice in fresh children: same verdict, same message, same observation hash
  memcpy(SH->site_shared, f->sites, NSITES);
  for (int r = 0; r < 2; r++) {
    wslot_t* s = &slots[0];
    s->len = f->len;
    memcpy(s->prefix, f->choices, f->len);
    exec_in_slot(s);
    char sig[300];
    normalise(s->tr.msg, sig, sizeof sig);
    if (s->tr.verdict != f->verdict || strcmp(sig, f->msg) || s->tr.obs != f->obs) {
      fprintf(stderr, "fmc: replay mismatch: got %s '%s'\n", vname[s->tr.verdict], sig);
      return 0;
    }
  }
  return 1;
}

static void json_str(FILE* o, const char* s) {
  fputc('"', o);
  for (; *s; s++) {
    if (*s == '"' || *s == '\\') fputc('\\', o);
    if ((unsigned char)*s < 32) fputc(' ', o);
    else fputc(*s, o);
  }
  fputc('"', o);
}

static int do_replay(const char* path, int verbose) {
  FILE* f = fopen(path, "r");
  if (!f) { perror(path); return 2; }
  static char line[2 * MAXCP + 100];
  wslot_t* s = &slots[0];
  s->len = 0;
  char expect[300] = "";
  while (fgets(line, sizeof line, f)) {
    if (!strncmp(line, "sites", 5)) {
      char* p = line + 5;
      int k, n;
      while (sscanf(p, " %d%n", &k, &n) == 1) { SH->site_shared[k & (NSITES - 1)] = 1; p += n; }
    } else if (!strncmp(line, "choices ", 8)) {
      char* p = line + 8;
      while ((*p >= '0' && *p <= '9') || (*p >= 'a' && *p <= 'f')) {
        s->prefix[s->len++] = *p <= '9' ? *p - '0' : *p - 'a' + 10;
        p++;
      }
    } else if (!strncmp(line, "verdict ", 8)) {
      strncpy(expect, line + 8, sizeof expect - 1);
      expect[strcspn(expect, "\n")] = 0;
    }
  }
  fclose(f);
  fmc_tracing = verbose ? 2 : 1;
  exec_in_slot(s);
  printf("replay verdict=%s expected=%s steps=%lu cps=%u msg=%s\n", vname[s->tr.verdict], expect, (unsigned long)s->tr.steps, s->tr.ncp, s->tr.msg);
  return (s->tr.verdict == V_OK) ? 0 : 1;
}

int main(int argc, char** argv) {
  // deterministic address space: re-exec once with ASLR off
  int pers = personality(0xffffffff);
  if (pers != -1 && !(pers & ADDR_NO_RANDOMIZE) && !getenv("FMC_NOREEXEC")) {
    personality(pers | ADDR_NO_RANDOMIZE);
    setenv("FMC_NOREEXEC", "1", 1);
    execv("/proc/self/exe", argv);
  }
  clock_gettime(CLOCK_MONOTONIC, &t0);
  const char* json = 0;
  const char* outdir = ".";
  const char* replay = 0;
  const char* name = "harness";
  int verbose = 0, pmin = 0, discover = 0, envall = 0, atomicfilter = 0, precise = 0, focus = 0, weakrmw = 0;
  for (int i = 1; i < argc; i++) {
    char* a = argv[i];
    if (!strncmp(a, "-P", 2)) P = atoi(a + 2);
    else if (!strncmp(a, "-D", 2) && strchr(a, '=')) {
      char* eq = strchr(a, '=');
      int n = eq - (a + 2);
      if (n > 31) n = 31;
      memcpy(params[nparams].name, a + 2, n);
      params[nparams].name[n] = 0;
      params[nparams++].val = atoi(eq + 1);
    } else if (!strncmp(a, "-S", 2)) D = atoi(a + 2), fmc_tso = D > 0;
    else if (!strncmp(a, "-E", 2)) E = atoi(a + 2);
    else if (!strncmp(a, "-Y", 2)) Y = atoi(a + 2);
    else if (!strncmp(a, "-W", 2)) W = atoi(a + 2);
    else if (!strncmp(a, "-pmin", 5)) pmin = atoi(a + 5);
    else if (!strncmp(a, "-cap", 4)) cap = atol(a + 4);
    else if (!strncmp(a, "-deadline", 9)) deadline_s = atof(a + 9);
    else if (!strncmp(a, "-horizon", 8)) fmc_horizon = atol(a + 8);
    else if (!strncmp(a, "-ctimeout", 9)) child_timeout = atoi(a + 9);
    else if (!strcmp(a, "-nofilter")) fmc_use_site_filter = 0;
    else if (!strcmp(a, "-discover")) discover = 1;
    else if (!strcmp(a, "-envall")) envall = 1;
    else if (!strcmp(a, "-atomicfilter")) atomicfilter = 1;
    else if (!strcmp(a, "-focus")) focus = 1;
    else if (!strcmp(a, "-weakrmw")) weakrmw = 1;
    else if (!strcmp(a, "-precise")) precise = 1;
    else if (!strcmp(a, "-noprecise")) precise = 0;
    else if (!strcmp(a, "-stop")) stop_on_fail = 1;
    else if (!strncmp(a, "-json=", 6)) json = a + 6;
    else if (!strncmp(a, "-out=", 5)) outdir = a + 5;
    else if (!strncmp(a, "-name=", 6)) name = a + 6;
    else if (!strncmp(a, "-replay=", 8)) replay = a + 8;
    else if (!strcmp(a, "-v")) verbose = 1;
    else if (!strncmp(a, "-L0=", 4)) fmc_L0 = atoi(a + 4);
    else if (!strncmp(a, "-L=", 3)) fmc_L = atoi(a + 3);
    else { fprintf(stderr, "fmc: unknown option %s\n", a); return 2; }
  }
  if (W < 1) W = 1;
  if (W > 64) W = 64;
  fmc_arena_setup();
  SH = mmap(0, sizeof(shared_t), PROT_READ | PROT_WRITE, MAP_SHARED | MAP_ANONYMOUS, -1, 0);
  slots = mmap(0, sizeof(wslot_t) * (size_t)W, PROT_READ | PROT_WRITE, MAP_SHARED | MAP_ANONYMOUS | MAP_NORESERVE, -1, 0);
  SH->envall = envall;
  SH->atomicfilter = atomicfilter;
  SH->precise = precise;
  SH->focus = focus;
  SH->weakrmw = weakrmw;
  if (replay) return do_replay(replay, verbose);

  start_workers();
  int targetP = P;
  pass_t* ps = malloc(sizeof *ps);
  pass_t* last = malloc(sizeof *last);
  long tot_execs = 0, tot_states = 0, tot_nontrivial = 0;
  uint64_t tot_steps = 0;
  int passes = 0, completedP = -1, closed = 0, complete = 0;
  int engine_error = 0;
  memset(last, 0, sizeof *last);
  // discovery pass: one pre-emption anywhere (every instrumented access a choice point) to
  // seed the conflict-closed site set cheaply; its executions are real and are counted
  if (discover && targetP >= 1) {
    P = 1;
    SH->nofilter = 1;
    long savecap = cap;
    cap = 20000;
    run_pass(ps);
    cap = savecap;
    SH->nofilter = 0;
    passes++;
    tot_execs += ps->execs; tot_states += ps->states; tot_steps += ps->steps; tot_nontrivial += ps->nontrivial;
    fprintf(stderr, "fmc[%s] discovery pass (P=1, all accesses): execs=%ld failing=%ld new_sites=%d t=%.1fs\n", name, ps->execs, total_failing, SH->new_sites, now_s());
    memcpy(SH->site_shared, SH->site_next, NSITES);
  }
  for (int p = (pmin < targetP ? pmin : targetP); p <= targetP && !engine_error; p++) {
    P = p;
    for (int rep = 0; rep < 8; rep++) {
      run_pass(ps);
      passes++;
      tot_execs += ps->execs; tot_states += ps->states; tot_steps += ps->steps; tot_nontrivial += ps->nontrivial;
      fprintf(stderr, "fmc[%s] pass %d P=%d D=%d E=%d: execs=%ld ok=%ld failing=%ld inconclusive=%ld nontrivial=%ld outcomes=%d max_cp=%ld steps=%lu |S|=%d new_sites=%d complete=%d t=%.1fs\n",
              name, passes, P, D, E, ps->execs, ps->ok, total_failing, ps->inconclusive, ps->nontrivial, ps->nobs, ps->maxcp, (unsigned long)ps->steps, count_sites(), SH->new_sites, ps->complete, now_s());
      for (int i = 0; i < nfails; i++)
        if (fails[i].verdict == V_DIVERGE || fails[i].verdict == V_ENGINE) engine_error = 1;
      memcpy(last, ps, sizeof *ps);
      if (engine_error) break;
      if (ps->closed || !ps->complete) break;
      memcpy(SH->site_shared, SH->site_next, NSITES);
    }
    if (ps->complete && ps->closed) { completedP = p; closed = 1; complete = (p == targetP); }
    else { closed = ps->closed; complete = 0; }
    if (!ps->complete) break;
    if (total_failing && stop_on_fail) break;
    if (!ps->closed) memcpy(SH->site_shared, SH->site_next, NSITES);
  }
  // confirm and write failures
  int unconfirmed = 0;
  for (int i = 0; i < nfails; i++) {
    failure_t* f = &fails[i];
    if (f->verdict == V_DIVERGE || f->verdict == V_ENGINE) continue;
    f->confirmed = confirm(f);
    if (!f->confirmed) unconfirmed++;
    char path[600];
    snprintf(path, sizeof path, "%s/%s.%d.replay", outdir, name, i);
    write_replay(path, f, argc, argv);
  }
  if (first_inconclusive.choices) {
    char path[600];
    snprintf(path, sizeof path, "%s/%s.inconclusive.replay", outdir, name);
    write_replay(path, &first_inconclusive, argc, argv);
  }
  stop_workers();
  double wall = now_s();
  if (json) {
    FILE* o = fopen(json, "w");
    fprintf(o, "{\"harness\":");
    json_str(o, name);
    fprintf(o, ",\"args\":[");
    for (int i = 1; i < argc; i++) { if (i > 1) fputc(',', o); json_str(o, argv[i]); }
    fprintf(o, "],\"Y\":%d,\"P\":%d,\"D\":%d,\"E\":%d,\"completed_P\":%d,\"complete\":%s,\"closed\":%s,\"passes\":%d,", Y, targetP, D, E, completedP, complete ? "true" : "false", closed ? "true" : "false", passes);
    fprintf(o, "\"execs\":%ld,\"states\":%ld,\"transitions\":%lu,\"nontrivial\":%ld,\"last_pass_nontrivial\":%ld,\"last_pass_execs\":%ld,\"last_pass_ok\":%ld,\"inconclusive\":%ld,\"outcomes\":%d,\"max_cp\":%ld,\"sites\":%d,\"threads\":%u,",
            tot_execs, tot_states, (unsigned long)tot_steps, tot_nontrivial, last->nontrivial, last->execs, last->ok, last->inconclusive, last->nobs, last->maxcp, count_sites(), slots[0].tr.maxthreads);
    fprintf(o, "\"user_cases\":%lu,\"engine_error\":%s,\"unconfirmed\":%d,\"wall_s\":%.2f,\"samples\":[", (unsigned long)last->user_cases, engine_error ? "true" : "false", unconfirmed, wall);
    for (int i = 0; i < last->nsamples; i++) { if (i) fputc(',', o); json_str(o, last->samples[i]); }
    fprintf(o, "],\"failures\":[");
    int first = 1;
    for (int i = 0; i < nfails; i++) {
      failure_t* f = &fails[i];
      if (!first) fputc(',', o);
      first = 0;
      char path[600];
      snprintf(path, sizeof path, "%s/%s.%d.replay", outdir, name, i);
      fprintf(o, "{\"verdict\":\"%s\",\"msg\":", vname[f->verdict]);
      json_str(o, f->msg);
      fprintf(o, ",\"raw_msg\":");
      json_str(o, f->raw);
      fprintf(o, ",\"count\":%ld,\"confirmed\":%s,\"cost\":[%d,%d,%d],\"replay\":", f->count, f->confirmed ? "true" : "false", f->p, f->d, f->e);
      json_str(o, path);
      fprintf(o, "}");
    }
    fprintf(o, "]}\n");
    fclose(o);
  }
  for (int i = 0; i < nfails; i++)
    fprintf(stderr, "fmc[%s] %s x%ld (cost P%d D%d E%d)%s: %s\n", name, vname[fails[i].verdict], fails[i].count, fails[i].p, fails[i].d, fails[i].e, fails[i].confirmed ? "" : " UNCONFIRMED", fails[i].msg);
  fprintf(stderr, "fmc[%s] done: execs=%ld completed_P=%d complete=%d closed=%d wall=%.1fs\n", name, tot_execs, completedP, complete, closed, wall);
  if (engine_error || unconfirmed) return 2;
  return nfails ? 1 : 0;
}
