// libfmcenv.so: sits between the executable (which contains libfiber's own
// read/write/... shims) and libc, so that libfiber's dlsym(RTLD_NEXT, "read")
// lands here. Every descriptor syscall becomes a scheduling point: the order of
// syscalls of different kernel threads on one socket is part of the schedule.
#define _GNU_SOURCE
#include <stddef.h>
#include <sys/socket.h>
#include <sys/syscall.h>
#include <sys/types.h>
#include <sys/uio.h>
#include <unistd.h>

extern void fmc_env_point(void) __attribute__((weak));
#define PT() do { if (fmc_env_point) fmc_env_point(); } while (0)

static long ret(long r) { return r; }

ssize_t read(int fd, void* b, size_t n) { PT(); return ret(syscall(SYS_read, fd, b, n)); }
ssize_t write(int fd, const void* b, size_t n) { PT(); return ret(syscall(SYS_write, fd, b, n)); }
ssize_t readv(int fd, const struct iovec* v, int c) { PT(); return ret(syscall(SYS_readv, fd, v, c)); }
ssize_t writev(int fd, const struct iovec* v, int c) { PT(); return ret(syscall(SYS_writev, fd, v, c)); }
ssize_t send(int fd, const void* b, size_t n, int f) { PT(); return ret(syscall(SYS_sendto, fd, b, n, f, NULL, 0)); }
ssize_t sendto(int fd, const void* b, size_t n, int f, const struct sockaddr* a, socklen_t l) { PT(); return ret(syscall(SYS_sendto, fd, b, n, f, a, l)); }
ssize_t sendmsg(int fd, const struct msghdr* m, int f) { PT(); return ret(syscall(SYS_sendmsg, fd, m, f)); }
ssize_t recv(int fd, void* b, size_t n, int f) { PT(); return ret(syscall(SYS_recvfrom, fd, b, n, f, NULL, NULL)); }
ssize_t recvfrom(int fd, void* b, size_t n, int f, struct sockaddr* a, socklen_t* l) { PT(); return ret(syscall(SYS_recvfrom, fd, b, n, f, a, l)); }
ssize_t recvmsg(int fd, struct msghdr* m, int f) { PT(); return ret(syscall(SYS_recvmsg, fd, m, f)); }
int accept(int fd, struct sockaddr* a, socklen_t* l) { PT(); return (int)ret(syscall(SYS_accept, fd, a, l)); }
int connect(int fd, const struct sockaddr* a, socklen_t l) { PT(); return (int)ret(syscall(SYS_connect, fd, a, l)); }
int close(int fd) { PT(); return (int)ret(syscall(SYS_close, fd)); }
