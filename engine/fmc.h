// fmc: stateless, deviation-bounded model checking of the real libfiber code.
// Harness-facing API. The implementation (engine/fmc_rt.c) is compiled WITHOUT
// instrumentation; harnesses and /repo/src are compiled with -fsanitize=thread
// and linked against fmc_rt.o instead of libtsan.
#ifndef FMC_H
#define FMC_H
#include <stddef.h>
#include <stdint.h>

#ifdef __cplusplus
extern "C" {
#endif

// Functions with this attribute are not instrumented: they execute atomically
// with respect to the explored schedule (no scheduling point inside), which is
// what harness bookkeeping ("ghost state") must be.
#define GHOST __attribute__((no_sanitize_thread, noinline))

// every harness defines this; it runs once per explored execution in a fresh
// forked child. It must call fmc_begin() and end with fmc_end().
extern int harness_main(void);

void fmc_begin(void);                 // open the exploration window (thread 0)
void fmc_end(void) __attribute__((noreturn));  // execution finished OK
void fmc_fail(const char* fmt, ...) __attribute__((noreturn, format(printf, 1, 2)));
void fmc_yield(void);                 // polite yield: cost-free choice point
void fmc_atomic(int on);              // while on, the running kernel thread is never switched out (harness set-up only)
int fmc_in_atomic(void);
void fmc_wait_threads(void);          // thread 0: block until all other kernel threads exited
void fmc_obs(uint64_t v);             // fold a value into the outcome hash
void fmc_progress(void);              // tell the fair scheduler something changed
int fmc_param(const char* name, int deflt);  // -Dname=value from the command line
void fmc_log(const char* fmt, ...) __attribute__((format(printf, 1, 2)));  // replay trace only
int fmc_tid(void);                    // kernel-thread index 0..3
int fmc_nthreads(void);
int fmc_exploring(void);
int fmc_tso_mode(void);                // 1 when stores may be delayed (x86-TSO runs, -S>0)
uint64_t fmc_steps(void);
void fmc_add_steps(uint64_t n);       // account transitions the engine cannot see (uninstrumented code under test)
void fmc_count(uint64_t n);           // cases enumerated inside one execution (sequential harnesses)

// virtual timer (timerfd replaced by an eventfd): inject k expirations
void fmc_tick(uint64_t k);
uint64_t fmc_vticks(void);            // expirations injected so far
// called when every kernel thread is idle. Return 1 if an event was injected
// (execution continues), 0 to declare the execution stuck.
extern int fmc_on_quiescent(void) __attribute__((weak));
// optional environment deviations offered at scheduling points: alternative
// idx (0..7) is performed by this callback; fmc_env_nalts says how many exist.
extern void fmc_env_alt(int idx) __attribute__((weak));
extern int fmc_env_nalts __attribute__((weak));
// enumerate an input or program parameter: all values 0..n-1 (n<=16) are explored, cost-free
int fmc_input(int n);
// an explicit environment choice (cost 1 of E for every answer != 0)
int fmc_env_choose(int nalts);
// call immediately before the harness reads the environment (fmc_vticks): deviations are offered
// only at operations that observe the environment, everything else commutes with them
void fmc_env_observe(void);

// expected-blocked bookkeeping is harness business; engine only needs to know
// whether being stuck at quiescence is acceptable: harness calls fmc_end()
// from fmc_on_quiescent() if the stuck state is the expected one.

// heap oracle helpers
int fmc_heap_is_live(const void* p);
void fmc_heap_stats(uint64_t* allocs, uint64_t* frees, uint64_t* live_bytes);  // 1 live block, 0 freed/unknown
void fmc_heap_check(const void* p, size_t n, const char* what);

// oracle switches (bit mask), set before fmc_begin()
#define FMC_O_HEAP 1u     // freed / red-zone access is a violation
#define FMC_O_STACK 2u    // access below another fiber's live stack is a violation
#define FMC_O_RUNMAP 4u   // C01 fiber run map (runtime harnesses)
#define FMC_O_WAKES 8u    // C02 wake accounting (runtime harnesses)
#define FMC_O_OWNER 32u   // owner-only run-queue operations (push_bottom/pop_bottom) never overlap on two kernel threads
#define FMC_O_RECLAIM 16u // C04: a fiber is reclaimed once, only when finished, saved and not queued
void fmc_oracles(unsigned mask);
unsigned fmc_oracle_mask(void);

// watch log: exact history of atomic operations on one 8-byte granule
typedef struct { int thread, kind, size, off; uint64_t oldv, newv; } fmc_wev_t;  // kind: L load S store X xchg A add/sub C cas-ok c cas-fail N note(off=code,oldv=value)
#define FMC_MAXWLOG 256
// focus ranges: with the engine option -focus, a running thread is offered for pre-emption only
// immediately before its operations on a declared range (the object under test); switches at
// blocking/yielding operations are unaffected. A sound restriction of the schedule space that buys
// a higher pre-emption bound on one object. Without -focus the declaration has no effect.
void fmc_focus(void* p, unsigned long n);
void fmc_watch(void* addr);
void fmc_watch_note(int code, uint64_t v);
int fmc_watch_n(void);
fmc_wev_t* fmc_watch_log(void);

// linearizability / history support ------------------------------------------------
typedef struct fmc_op {
  int thread, kind;
  intptr_t arg, ret;
  uint32_t inv, resp;  // logical times; resp==0 while pending
} fmc_op_t;
#define FMC_MAXOPS 32
int fmc_op_begin(int kind, intptr_t arg);       // returns op index
void fmc_op_end(int idx, intptr_t ret);
int fmc_nops(void);
fmc_op_t* fmc_ops(void);
// generic Wing&Gong search: spec(state, op) returns 1 and updates state when
// op (with its recorded return value) is legal next; state is an opaque blob
// of state_size bytes (copied for backtracking). Pending ops may be dropped or
// linearized with any return (spec sees ret_known=0).
typedef int (*fmc_spec_fn)(void* state, const fmc_op_t* op, int ret_known);
int fmc_linearizable(fmc_spec_fn spec, const void* init_state, size_t state_size);
void fmc_history_obs(void);   // fold the history into the outcome hash
void fmc_history_dump(char* buf, size_t n);

#ifdef __cplusplus
}
#endif
#endif
