#!/bin/sh
# confirmseed.sh <worktree>: suite passes with the patch; demo fails with it, passes without it
WT=$1
cd $WT || exit 2
git diff -- src include > /tmp/confirm_$$.diff
cmp -s /tmp/confirm_$$.diff seed/patch.diff || echo "NOTE: worktree diff differs from seed/patch.diff"
cmake --build _b >/dev/null 2>&1
S1=$(ctest --test-dir _b -j8 --timeout 900 2>&1 | grep "tests passed")
echo "suite with patch: $S1"
timeout 900 sh seed/run.sh >/tmp/confirm_with_$$.log 2>&1; echo "demo with patch rc=$?"
git apply -R seed/patch.diff && cmake --build _b >/dev/null 2>&1
timeout 900 sh seed/run.sh >/tmp/confirm_wo_$$.log 2>&1; echo "demo without patch rc=$?"
git apply seed/patch.diff && cmake --build _b >/dev/null 2>&1
rm -f /tmp/confirm_$$.diff
