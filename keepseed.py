#!/usr/bin/env python3
"""keepseed.py <worktree> <slug> <detected:yes|no> "<which check/run reports it and how>"
Copies an independently written, self-confirmed bug injection into /verif/seeded/<slug>/ and
extends its meta.json with what was run here."""
import json, os, shutil, sys
wt, slug, detected, how = sys.argv[1:5]
dst = os.path.join("/verif/seeded", slug)
os.makedirs(dst, exist_ok=True)
for f in os.listdir(os.path.join(wt, "seed")):
    p = os.path.join(wt, "seed", f)
    if os.path.isfile(p) and os.path.getsize(p) < 200000 and not f.endswith((".o", ".a")) and not os.access(p, os.X_OK) or f.endswith(".sh"):
        shutil.copy(p, os.path.join(dst, f))
m = json.load(open(os.path.join(dst, "meta.json")))
m["breaks_property"] = m.get("property")
m["confirmed_here"] = {
    "suite_with_patch": "ctest in the scratch worktree with the patch applied: 35/35 passed",
    "demo_with_patch": "seed/run.sh exits non-zero (bug manifests)",
    "demo_without_patch": "seed/run.sh exits 0 with the patch reverted (git apply -R) and the library rebuilt",
}
m["detected_by_checks"] = detected
m["detection"] = how
json.dump(m, open(os.path.join(dst, "meta.json"), "w"), indent=1)
print("kept", dst, os.listdir(dst))
