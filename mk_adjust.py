#!/usr/bin/env python3
"""mk_adjust.py <profile.json ...>: from profile_thorough.py results, write thorough_adjust.json:
every thorough run that did not complete inside the cap is replaced by the same program one
pre-emption (or one environment deviation) lower; a run already at the floor is dropped."""
import json, os, re, sys
here = os.path.dirname(os.path.abspath(__file__))
adjp = os.path.join(here, "thorough_adjust.json")
adj = json.load(open(adjp)) if os.path.exists(adjp) else {}
prof = {}
for f in sys.argv[1:]:
    for k, v in json.load(open(f)).items():
        prof[v["args"]] = v
# resolve chains: a run may already have been adjusted; look at the final variant's result
def lower(args):
    a = args.split()
    P = next((int(x[2:]) for x in a if re.fullmatch(r"-P\d+", x)), None)
    E = next((int(x[2:]) for x in a if re.fullmatch(r"-E\d+", x)), None)
    if E is not None and E >= 2:
        return " ".join("-E%d" % (E - 1) if re.fullmatch(r"-E\d+", x) else x for x in a)
    if P is None or P <= 1:
        return None
    return " ".join("-P%d" % (P - 1) if re.fullmatch(r"-P\d+", x) else x for x in a)
changed = 0
for args, v in prof.items():
    if v.get("complete") and not v.get("failures"):
        continue
    if v.get("failures"):
        print("FAILURES in", args, v["failures"][:1])
        continue
    # find the original key whose current variant is `args`
    origs = [k for k, val in adj.items() if val == args] or [args]
    for o in origs:
        adj[o] = lower(args)
        changed += 1
        print("%-90s -> %s" % (o, adj[o]))
json.dump(adj, open(adjp, "w"), indent=1, sort_keys=True)
print("adjustments:", len(adj), "changed now:", changed)
