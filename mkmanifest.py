#!/usr/bin/env python3
"""Regenerate MANIFEST.json from checks.py (single source of truth for what is claimed)."""
import json
import os
import subprocess

from checks import CHECKS, NOT_APPLICABLE

VERIF = os.path.dirname(os.path.abspath(__file__))
props = [json.loads(l) for l in open(os.path.join(VERIF, "properties.jsonl"))]
ids = [p["id"] for p in props]


def repo_commits():
    try:
        out = subprocess.run(["git", "-C", "/repo", "log", "--format=%H %s"], capture_output=True, text=True).stdout
        return [l.split()[0] for l in out.splitlines() if "LIBFIBER_VERIF" in l]
    except Exception:
        return []


checks = []
for pid in ids:
    if pid not in CHECKS:
        continue
    c = CHECKS[pid]
    checks.append({
        "property_id": pid,
        "quick_cmd": "python3 run.py check %s --tier quick" % pid,
        "thorough_cmd": "python3 run.py check %s --tier thorough" % pid,
        "evidence_file": "/verif/evidence/%s.json" % pid,
        "replay_cmd_template": "python3 run.py replay {path}",
        "engine": "fmc",
        "level_claimed": {
            "category": "model_checking",
            "text": c["level_text"],
            "design_ref": "DESIGN.md section 2, %s" % pid,
        },
        "level_note": c.get("level_note", "Bounded: small programs, 1-3 kernel threads, stated pre-emption/delay/environment bounds; sequential consistency (+ one delayed store per thread where D>0); Linux kernel objects and libc trusted; the compiler's ThreadSanitizer pass is trusted to report every shared access."),
        "technique": c.get("technique", "stateless model checking of the real compiled code: exhaustive pre-emption-bounded enumeration of kernel-thread schedules (prefix-replay DFS under a serialising scheduler behind the tsan ABI)"),
    })

na = []
for pid in ids:
    if pid in CHECKS:
        continue
    na.append({"property_id": pid, "reason": NOT_APPLICABLE.get(pid, "no check built yet for this property; nothing is claimed")})

m = {
    "version": 1,
    "setup_cmd": "python3 run.py build",
    "hooks": {
        "guard": "LIBFIBER_VERIF",
        "enable": "run.py compiles /repo/src/*.c with gcc -O2 -fsanitize=thread -DLIBFIBER_VERIF -DFIBER_FAST_SWITCHING -DFIBER_STACK_MALLOC -DNDEBUG and links against /verif/engine (no libtsan); the guard only adds calls to fmc_spin_hint/fmc_fence/fmc_rmw16 in the three inline-asm primitives of include/machine_specific.h",
        "baseline_off_cmd": "/verif/baseline_off.sh",
        "source_commits": repo_commits(),
        "add_only": True,
    },
    "engines": [{
        "name": "fmc",
        "path": "/verif/engine",
        "serves_properties": [c["property_id"] for c in checks],
        "kind_free_text": "stateless model checker for the real code: gcc's ThreadSanitizer instrumentation linked against our own runtime that serialises kernel threads and makes every shared access/atomic/asm hook/environment call a scheduling point; iterative deviation bounding (pre-emptions, x86-TSO delayed stores, environment answers); conflict-closed site set; fork per execution; optional restriction of pre-emption points to the object under test (-focus) for deeper bounds; programs, creation orders and configurations enumerated as inputs; heap/stack shadow, fiber run map, wake accounting, reclaim and run-queue ownership observers as oracles; replayable schedules",
    }],
    "checks": checks,
    "not_applicable": na,
    "notes": "See DESIGN.md. known_findings.json lists genuine defects (recorded or fixed). seeded/ holds independently written property-breaking changes used to test the checks.",
}
with open(os.path.join(VERIF, "MANIFEST.json"), "w") as f:
    json.dump(m, f, indent=1)
print("MANIFEST.json: %d checks, %d not claimed" % (len(checks), len(na)))
