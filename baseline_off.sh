#!/bin/sh
# Build brianwatling/libfiber exactly as the project does (guard LIBFIBER_VERIF undefined)
# in a scratch build directory and run its test suite.
set -e
B=/verif/build/baseline_off
rm -rf "$B"
cmake -S "${VERIF_REPO:-/repo}" -B "$B" -G Ninja -DCMAKE_BUILD_TYPE=RelWithDebInfo -DCMAKE_C_FLAGS=-Wno-error -DFIBER_RUN_TESTS_WITH_BUILD=OFF >/dev/null
cmake --build "$B" >/dev/null
ctest --test-dir "$B" -j8 --timeout 900 "$@"
