#!/usr/bin/env python3
"""seedsweep.py [<slug-prefix> ...]: run the quick check of its property against every kept seed
(seeded/*/patch.diff, each on a scratch copy of /repo with the patch applied) and compare the
outcome with what meta.json records (detected_by_checks). Prints one line per seed; exit 1 when a
seed recorded as detected is no longer reported, or a seed recorded as not detected now is."""
import json, os, subprocess, sys
here = os.path.dirname(os.path.abspath(__file__))
want = sys.argv[1:]
bad = 0
for slug in sorted(os.listdir(os.path.join(here, "seeded"))):
    d = os.path.join(here, "seeded", slug)
    if not os.path.isfile(os.path.join(d, "patch.diff")):
        continue
    if want and not any(slug.startswith(w) for w in want):
        continue
    m = json.load(open(os.path.join(d, "meta.json")))
    prop = m.get("breaks_property") or m.get("property")
    expect = str(m.get("detected_by_checks", "")).lower().startswith("yes")
    r = subprocess.run([sys.executable, os.path.join(here, "seedtest.py"), os.path.join(d, "patch.diff"), prop], capture_output=True, text=True)
    first = r.stdout.splitlines()[0] if r.stdout else "?"
    got = "rc=1" in first
    flag = "ok" if got == expect else "MISMATCH"
    if got != expect:
        bad = 1
    viol = [l.strip() for l in r.stdout.splitlines() if "FAIL" in l or "DEADLOCK" in l or "CRASH" in l]
    print("%-8s %-45s %-4s expected=%s reported=%s %s" % (flag, slug, prop, expect, got, (viol[0][:110] if viol else "")), flush=True)
sys.exit(bad)
