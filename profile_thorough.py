#!/usr/bin/env python3
"""profile_thorough.py [cap_seconds] [ID ...]: run every run of the thorough tier on its own with a
time cap and record whether it completed (development aid: used to size the thorough tier so that
each check finishes well inside its budget; results in /tmp/profile_thorough.json)."""
import json, os, subprocess, sys, time
sys.path.insert(0, os.path.dirname(os.path.abspath(__file__)))
import fmcbuild
from checks import CHECKS, HARNESSES
JP = os.environ.get("PROFILE_JSON", "/tmp/profile_thorough.json")
cap = float(sys.argv[1]) if len(sys.argv) > 1 else 150.0
ids = sys.argv[2:] or sorted(CHECKS)
out = json.load(open(JP)) if os.path.exists(JP) else {}
outdir = "/tmp/profile_thorough_out"
os.makedirs(outdir, exist_ok=True)
libdir = fmcbuild.build_lib()
for pid in ids:
    for idx, run in enumerate(CHECKS[pid]["thorough"]):
        if "%s-%d" % (pid, idx) in out: continue
        h = HARNESSES[run["harness"]]
        exe = fmcbuild.build_harness(h.get("src", run["harness"]), h["kind"], libdir, extra_wraps=h.get("wraps", ()), lib_objs=h.get("objs"), defs=h.get("defs", ()), extra_srcs=h.get("extra_srcs", ()), link_flags=h.get("link_flags", ()), variant=h.get("variant", ""))
        jp = os.path.join(outdir, "%s-%d.json" % (pid, idx))
        if os.path.exists(jp): os.remove(jp)
        cmd = [exe] + list(run["args"]) + ["-name=%s-%d" % (pid, idx), "-out=" + outdir, "-json=" + jp, "-deadline%.1f" % cap]
        if "W" not in run: cmd.append("-W16")
        t0 = time.time()
        try:
            subprocess.run(cmd, stdout=subprocess.PIPE, stderr=subprocess.PIPE, timeout=cap + 120)
        except subprocess.TimeoutExpired:
            pass
        w = time.time() - t0
        rec = {"args": " ".join([run["harness"]] + list(run["args"])), "wall": round(w, 1)}
        if os.path.exists(jp):
            r = json.load(open(jp))
            rec.update(complete=r["complete"], closed=r["closed"], execs=r["execs"], completed_P=r["completed_P"], failures=[(f["verdict"], f["msg"][:160]) for f in r["failures"]])
        else:
            rec.update(complete=False, error="no result")
        out["%s-%d" % (pid, idx)] = rec
        print(pid, idx, rec["args"], "complete=%s" % rec.get("complete"), "wall=%.0f" % w, "FAILURES=%d" % len(rec.get("failures", [])) if rec.get("failures") else "", flush=True)
        json.dump(out, open(JP, "w"), indent=1)
